/-
  Proofs about the regex-loop scanners of `Model/Translate.lean`:
  * `parse_basic_variables` / `parse_array_variables` (`basicVarNums`, `arrayVarNums`): soundness and completeness
    against a declarative "occurs as a variable" specification (property C09);
  * `translate_update_expression` (`assignMatches`, `updatePairs`, `translateUpdate`): exact splitting of rendered
    assignment lists (property C05).
-/
import Rbql.Model.Translate
namespace Rbql
-- helper definitions and lemmas of the C05/C09 translation-layer proofs live in their own namespace
namespace UpdVars

/-! ### generic list facts -/

theorem takeWhile_dropWhile_append (p : Char → Bool) (ds post : Str) (h1 : ∀ c ∈ ds, p c = true)
    (h2 : ∀ c t, post = c :: t → p c = false) :
    (ds ++ post).takeWhile p = ds ∧ (ds ++ post).dropWhile p = post := by
  induction ds with
  | nil =>
    cases post with
    | nil => simp
    | cons c t => simp [h2 c t rfl]
  | cons d ds ih =>
    have := ih (fun c hc => h1 c (List.mem_cons_of_mem _ hc))
    simp [h1 d (List.mem_cons_self ..), this]

/-- a run `dm` of `p`-characters that overlaps a text containing a non-`p` character `l` ends before `l` -/
theorem overlap_run (p : Char → Bool) (l : Char) (hl : p l = false) :
    ∀ (dm q r2 rest : Str), (∀ c ∈ dm, p c = true) → dm ++ r2 = q ++ l :: rest →
      ∃ a, r2 = a ++ l :: rest ∧ q = dm ++ a := by
  intro dm
  induction dm with
  | nil => intro q r2 rest _ h; exact ⟨q, by simpa using h, by simp⟩
  | cons d dm ih =>
    intro q r2 rest hd h
    cases q with
    | nil =>
      simp only [List.cons_append, List.nil_append, List.cons.injEq] at h
      have := hd d (List.mem_cons_self ..)
      rw [h.1, hl] at this; cases this
    | cons x q =>
      simp only [List.cons_append, List.cons.injEq] at h
      obtain ⟨a, h1, h2⟩ := ih q r2 rest (fun c hc => hd c (List.mem_cons_of_mem _ hc)) h.2
      exact ⟨a, h1, by rw [h.1, h2]; rfl⟩

/-! ### character classes -/

theorem isWordChar_of_isDigit {c : Char} (h : isDigit c = true) : isWordChar c = true := by
  simp [isWordChar, h]

theorem not_isDigit_of_not_isWordChar {c : Char} (h : isWordChar c = false) : isDigit c = false := by
  cases hd : isDigit c with
  | false => rfl
  | true => rw [isWordChar_of_isDigit hd] at h; cases h

/-! ### field numbers `[1-9][0-9]*` -/

/-- `[1-9][0-9]*` (the whole string) -/
def isFieldNum : Str → Bool
  | d :: ds => isDigit d && d != '0' && ds.all isDigit
  | [] => false

theorem isFieldNum_digits {ds : Str} (h : isFieldNum ds = true) : ∀ c ∈ ds, isDigit c = true := by
  cases ds with
  | nil => simp [isFieldNum] at h
  | cons d ds =>
    simp only [isFieldNum, Bool.and_eq_true, List.all_eq_true] at h
    intro c hc
    rcases List.mem_cons.mp hc with rfl | hc
    · exact h.1.1
    · exact h.2 c hc

theorem isFieldNum_ne_nil {ds : Str} (h : isFieldNum ds = true) : ds ≠ [] := by
  cases ds with
  | nil => simp [isFieldNum] at h
  | cons d ds => simp

theorem takeFieldNum_hit (ds post : Str) (hds : isFieldNum ds = true)
    (hp : ∀ c t, post = c :: t → isDigit c = false) : takeFieldNum (ds ++ post) = some (ds, post) := by
  cases ds with
  | nil => simp [isFieldNum] at hds
  | cons d ds =>
    simp only [isFieldNum, Bool.and_eq_true, List.all_eq_true] at hds
    obtain ⟨h1, h2⟩ := takeWhile_dropWhile_append isDigit ds post hds.2 hp
    simp only [List.cons_append, takeFieldNum, hds.1.1, hds.1.2, Bool.and_self, if_true, h1, h2]

theorem takeFieldNum_some {r ds r2 : Str} (h : takeFieldNum r = some (ds, r2)) :
    r = ds ++ r2 ∧ isFieldNum ds = true ∧ (∀ c t, r2 = c :: t → isDigit c = false) := by
  cases r with
  | nil => simp [takeFieldNum] at h
  | cons d r =>
    simp only [takeFieldNum] at h
    split at h
    · rename_i hd
      simp only [Option.some.injEq, Prod.mk.injEq] at h
      obtain ⟨rfl, rfl⟩ := h
      refine ⟨by simp, ?_, ?_⟩
      · simp only [isFieldNum, Bool.and_eq_true, List.all_eq_true]
        simp only [Bool.and_eq_true] at hd
        exact ⟨hd, fun c hc => List.all_eq_true.mp List.all_takeWhile c hc⟩
      · intro c t hct
        have := List.head?_dropWhile_not isDigit r
        rw [hct] at this
        simpa using this
    · cases h

/-! ### `parse_basic_variables`: specification -/

/-- the text before a variable: empty, or ending with a non-word character -/
def BoundBefore (pre : Str) : Prop := pre = [] ∨ ∃ p l, pre = p ++ [l] ∧ isWordChar l = false

/-- the text after a basic variable: empty (for Python also a single final line feed), or starting with a non-word character -/
def BoundAfter (py : Bool) (post : Str) : Prop :=
  post = [] ∨ (py = true ∧ post = [LF]) ∨ ∃ c t, post = c :: t ∧ isWordChar c = false

/-- `n` occurs as a basic variable `pfx n` in `s` -/
def OccursBasic (py : Bool) (pfx : Char) (n : Nat) (s : Str) : Prop :=
  ∃ pre ds post, s = pre ++ [pfx] ++ ds ++ post ∧ isFieldNum ds = true ∧ digitsToNat ds = n ∧
    BoundBefore pre ∧ BoundAfter py post

/-- the look-ahead test of `basicVarItem` -/
theorem boundAfter_nil (py : Bool) : BoundAfter py [] := Or.inl rfl

theorem boundAfter_cons_iff (py : Bool) (c : Char) (t : Str) :
    BoundAfter py (c :: t) ↔ (atEnd py (c :: t) || !isWordChar c) = true := by
  simp only [BoundAfter, atEnd, List.isEmpty_cons, Bool.false_or, Bool.or_eq_true, Bool.and_eq_true,
    beq_iff_eq, Bool.not_eq_true', reduceCtorEq, false_or]
  constructor
  · rintro (h | ⟨c', t', h1, h2⟩)
    · exact Or.inl h
    · right; cases h1; exact h2
  · rintro (h | h)
    · exact Or.inl h
    · exact Or.inr ⟨c, t, rfl, h⟩

theorem boundAfter_not_digit {py : Bool} {post : Str} (h : BoundAfter py post) :
    ∀ c t, post = c :: t → isDigit c = false := by
  intro c t hct
  rcases h with h | ⟨_, h⟩ | ⟨c', t', h, hw⟩
  · rw [h] at hct; cases hct
  · rw [h] at hct; cases hct; decide
  · rw [h] at hct; cases hct; exact not_isDigit_of_not_isWordChar hw

/-! ### `basicVarItem` -/

theorem basicVarItem_hit (py : Bool) (pfx : Char) (ds post : Str) (hds : isFieldNum ds = true)
    (hpost : BoundAfter py post) :
    basicVarItem py pfx (pfx :: ds ++ post) = some (digitsToNat ds, 1 + ds.length) := by
  simp only [basicVarItem, List.cons_append, beq_self_eq_true, if_true,
    takeFieldNum_hit ds post hds (boundAfter_not_digit hpost)]
  cases post with
  | nil => simp [atEnd]
  | cons c t =>
    have := (boundAfter_cons_iff py c t).mp hpost
    simp only [this, if_true]

theorem basicVarItem_some {py : Bool} {pfx : Char} {s : Str} {n len : Nat}
    (h : basicVarItem py pfx s = some (n, len)) :
    ∃ ds r2, s = pfx :: ds ++ r2 ∧ isFieldNum ds = true ∧ n = digitsToNat ds ∧ len = 1 + ds.length ∧
      BoundAfter py r2 := by
  cases s with
  | nil => simp [basicVarItem] at h
  | cons p r =>
    simp only [basicVarItem] at h
    by_cases hp : (p == pfx) = true
    · simp only [hp, if_true] at h
      cases htf : takeFieldNum r with
      | none => simp [htf] at h
      | some m =>
        obtain ⟨ds, r2⟩ := m
        obtain ⟨hr, hds, _⟩ := takeFieldNum_some htf
        simp only [htf] at h
        have hb : BoundAfter py r2 := by
          cases r2 with
          | nil => exact boundAfter_nil py
          | cons c t =>
            rw [boundAfter_cons_iff]
            by_cases hb : (atEnd py (c :: t) || !isWordChar c) = true
            · exact hb
            · simp only [hb] at h; cases h
        have h' : some (digitsToNat ds, 1 + ds.length) = some (n, len) := by
          cases r2 with
          | nil => simpa [atEnd] using h
          | cons c t =>
            have := (boundAfter_cons_iff py c t).mp hb
            simpa only [this, if_true] using h
        simp only [Option.some.injEq, Prod.mk.injEq] at h'
        refine ⟨ds, r2, ?_, hds, h'.1.symm, h'.2.symm, hb⟩
        rw [hr, eq_of_beq hp]; rfl
    · simp only [hp] at h; cases h

theorem basicVarItem_nonword_head (py : Bool) (pfx l : Char) (t : Str) (hl : isWordChar l = false) :
    basicVarItem py pfx (l :: pfx :: t) = none := by
  simp only [basicVarItem]
  split
  · rename_i hp
    have : isDigit pfx = false := by rw [← eq_of_beq hp]; exact not_isDigit_of_not_isWordChar hl
    simp [takeFieldNum, this]
  · rfl

/-! ### `basicVarMatchAt` and `basicVarNums` -/

/-- where the scanner stands relative to a variable: at offset 0 exactly on it, or somewhere before its leading non-word character -/
def BeforeAt (pre : Str) (pos : Nat) : Prop := (pre = [] ∧ pos = 0) ∨ ∃ p l, pre = p ++ [l] ∧ isWordChar l = false

theorem basicVarMatchAt_some {py : Bool} {pfx : Char} {b : Bool} {s : Str} {n len : Nat}
    (h : basicVarMatchAt py pfx b s = some (n, len)) :
    ∃ lead ds r2, s = lead ++ pfx :: ds ++ r2 ∧ isFieldNum ds = true ∧ n = digitsToNat ds ∧
      len = lead.length + 1 + ds.length ∧ BoundAfter py r2 ∧
      ((lead = [] ∧ b = true) ∨ ∃ l, lead = [l] ∧ isWordChar l = false) := by
  unfold basicVarMatchAt at h
  split at h
  · rename_i m hm
    cases b with
    | false => simp at hm
    | true =>
      simp only [if_true] at hm
      simp only [Option.some.injEq] at h
      subst h
      obtain ⟨ds, r2, h1, h2, h3, h4, h5⟩ := basicVarItem_some hm
      exact ⟨[], ds, r2, by simpa using h1, h2, h3, by simpa using h4, h5, Or.inl ⟨rfl, rfl⟩⟩
  · cases s with
    | nil => simp at h
    | cons c t =>
      simp only at h
      split at h
      · rename_i hc
        cases hm : basicVarItem py pfx t with
        | none => simp [hm] at h
        | some m =>
          obtain ⟨n', len'⟩ := m
          simp only [hm, Option.map_some, Option.some.injEq, Prod.mk.injEq] at h
          obtain ⟨ds, r2, h1, h2, h3, h4, h5⟩ := basicVarItem_some hm
          refine ⟨[c], ds, r2, by simp [h1], h2, by rw [← h.1, h3], by simp; omega, h5, Or.inr ⟨c, rfl, by simpa using hc⟩⟩
      · cases h

theorem basicVarMatchAt_hit_start (py : Bool) (pfx : Char) (ds post : Str) (hds : isFieldNum ds = true)
    (hpost : BoundAfter py post) :
    basicVarMatchAt py pfx true (pfx :: ds ++ post) = some (digitsToNat ds, 1 + ds.length) := by
  simp only [basicVarMatchAt, if_true, basicVarItem_hit py pfx ds post hds hpost]

theorem basicVarMatchAt_hit_lead (py : Bool) (pfx : Char) (b : Bool) (l : Char) (ds post : Str)
    (hl : isWordChar l = false) (hds : isFieldNum ds = true) (hpost : BoundAfter py post) :
    basicVarMatchAt py pfx b (l :: pfx :: ds ++ post) = some (digitsToNat ds, 1 + ds.length + 1) := by
  have h0 : (if b = true then basicVarItem py pfx (l :: pfx :: (ds ++ post)) else none) = none := by
    cases b with
    | false => rfl
    | true => simpa using basicVarItem_nonword_head py pfx l (ds ++ post) hl
  have h1 := basicVarItem_hit py pfx ds post hds hpost
  simp only [List.cons_append] at h1
  simp only [basicVarMatchAt, List.cons_append, h0, hl, Bool.not_false, if_true, h1, Option.map_some]

theorem basicVarNums_skip (py : Bool) (pfx : Char) (xs rest : Str) (pos : Nat) :
    basicVarNums py pfx xs.length pos (xs ++ rest) = basicVarNums py pfx 0 (pos + xs.length) rest := by
  induction xs generalizing pos with
  | nil => simp
  | cons x xs ih =>
    simp only [List.length_cons, List.cons_append, basicVarNums]
    rw [ih]; congr 1; omega

/-- a match of length `len` at the head: the scan resumes right after it -/
theorem basicVarNums_match (py : Bool) (pfx : Char) (pos : Nat) (xs r2 : Str) (n : Nat) (hx : xs ≠ [])
    (h : basicVarMatchAt py pfx (pos == 0) (xs ++ r2) = some (n, xs.length)) :
    basicVarNums py pfx 0 pos (xs ++ r2) = n :: basicVarNums py pfx 0 (pos + xs.length) r2 := by
  cases xs with
  | nil => exact absurd rfl hx
  | cons c xs =>
    simp only [List.cons_append] at h
    simp only [List.cons_append, basicVarNums, h, List.length_cons, Nat.add_sub_cancel]
    rw [basicVarNums_skip]; congr 2; omega

theorem basicVarNums_sound_aux (py : Bool) (pfx : Char) (s : Str) : ∀ (skip pos n : Nat),
    n ∈ basicVarNums py pfx skip pos s →
    ∃ pre ds post, s = pre ++ pfx :: ds ++ post ∧ isFieldNum ds = true ∧ digitsToNat ds = n ∧
      BeforeAt pre pos ∧ BoundAfter py post := by
  induction s with
  | nil => intro skip pos n h; simp [basicVarNums] at h
  | cons c cs ih =>
    have lift : ∀ pos n, (∃ pre ds post, cs = pre ++ pfx :: ds ++ post ∧ isFieldNum ds = true ∧ digitsToNat ds = n ∧
        BeforeAt pre (pos + 1) ∧ BoundAfter py post) →
        ∃ pre ds post, c :: cs = pre ++ pfx :: ds ++ post ∧ isFieldNum ds = true ∧ digitsToNat ds = n ∧
        BeforeAt pre pos ∧ BoundAfter py post := by
      rintro pos n ⟨pre, ds, post, h1, h2, h3, h4, h5⟩
      refine ⟨c :: pre, ds, post, by simp [h1], h2, h3, ?_, h5⟩
      rcases h4 with ⟨_, h⟩ | ⟨p, l, hp, hl⟩
      · omega
      · exact Or.inr ⟨c :: p, l, by simp [hp], hl⟩
    intro skip pos n h
    cases skip with
    | succ skip =>
      simp only [basicVarNums] at h
      exact lift pos n (ih _ _ _ h)
    | zero =>
      simp only [basicVarNums] at h
      split at h
      · rename_i m len hm
        rcases List.mem_cons.mp h with rfl | h
        · obtain ⟨lead, ds, r2, h1, h2, h3, _, h5, h6⟩ := basicVarMatchAt_some hm
          refine ⟨lead, ds, r2, h1, h2, h3.symm, ?_, h5⟩
          rcases h6 with ⟨rfl, hb⟩ | ⟨l, rfl, hl⟩
          · exact Or.inl ⟨rfl, by simpa using hb⟩
          · exact Or.inr ⟨[], l, rfl, hl⟩
        · exact lift pos n (ih _ _ _ h)
      · exact lift pos n (ih _ _ _ h)

/-- a match that starts before the leading non-word character `l` of a variable ends before `l` -/
theorem basic_overlap (pfx l : Char) (hl : isWordChar l = false) (dm q r2 rest : Str) (hdm : isFieldNum dm = true)
    (h : pfx :: dm ++ r2 = q ++ l :: pfx :: rest) : ∃ a, r2 = a ++ l :: pfx :: rest := by
  have hdig := isFieldNum_digits hdm
  have hld := not_isDigit_of_not_isWordChar hl
  cases q with
  | nil =>
    simp only [List.cons_append, List.nil_append, List.cons.injEq] at h
    cases dm with
    | nil => simp [isFieldNum] at hdm
    | cons d dm =>
      simp only [List.cons_append, List.cons.injEq] at h
      have := hdig d (List.mem_cons_self ..)
      rw [h.2.1, h.1, hld] at this; cases this
  | cons x q =>
    simp only [List.cons_append, List.cons.injEq] at h
    obtain ⟨a, ha, _⟩ := overlap_run isDigit l hld dm q r2 (pfx :: rest) hdig h.2
    exact ⟨a, ha⟩

theorem basicVarNums_complete_aux (py : Bool) (pfx : Char) (ds post : Str) (hds : isFieldNum ds = true)
    (hpost : BoundAfter py post) : ∀ (k : Nat) (s : Str) (pos : Nat) (pre : Str), s.length ≤ k →
      s = pre ++ pfx :: ds ++ post → BeforeAt pre pos → digitsToNat ds ∈ basicVarNums py pfx 0 pos s := by
  intro k
  induction k with
  | zero =>
    intro s pos pre hk hs _
    rw [hs] at hk; simp at hk
  | succ k ih =>
    intro s pos pre hk hs hb
    cases s with
    | nil => cases pre <;> simp at hs
    | cons c cs =>
      rw [basicVarNums]
      split
      · rename_i m len hm
        -- a match at the head
        rcases hb with ⟨rfl, rfl⟩ | ⟨p, l, rfl, hl⟩
        · -- the scanner stands on the variable
          simp only [List.nil_append] at hs
          rw [hs] at hm
          have := basicVarMatchAt_hit_start py pfx ds post hds hpost
          simp only [List.cons_append] at this hm
          simp only [beq_self_eq_true] at hm
          rw [this] at hm
          simp only [Option.some.injEq, Prod.mk.injEq] at hm
          rw [hm.1]; exact List.mem_cons_self ..
        · obtain ⟨lead, dm, r2, h1, h2, h3, h4, h5, h6⟩ := basicVarMatchAt_some hm
          -- either the match is the variable itself, or it ends before `l`
          have key : m = digitsToNat ds ∨ ∃ a, r2 = a ++ l :: pfx :: (ds ++ post) := by
            rcases h6 with ⟨rfl, _⟩ | ⟨l', rfl, hl'⟩
            · right
              simp only [List.nil_append] at h1
              rw [hs] at h1
              exact basic_overlap pfx l hl dm p r2 (ds ++ post) h2 (by simpa using h1.symm)
            · cases p with
              | nil =>
                left
                rw [hs] at hm
                have := basicVarMatchAt_hit_lead py pfx (pos == 0) l ds post hl hds hpost
                simp only [List.nil_append, List.cons_append] at this hm
                rw [this] at hm
                simp only [Option.some.injEq, Prod.mk.injEq] at hm
                exact hm.1.symm
              | cons x p =>
                right
                rw [hs] at h1
                simp only [List.cons_append, List.append_assoc, List.nil_append, List.cons.injEq] at h1
                exact basic_overlap pfx l hl dm p r2 (ds ++ post) h2 (by simpa using h1.2.symm)
          rcases key with rfl | ⟨a, ha⟩
          · exact List.mem_cons_self ..
          · apply List.mem_cons_of_mem
            -- resume after the match
            have hcs : cs = (lead ++ pfx :: dm).tail ++ r2 := by
              have : c :: cs = (lead ++ pfx :: dm) ++ r2 := by simpa using h1
              cases hx : lead ++ pfx :: dm with
              | nil => cases lead <;> simp at hx
              | cons y ys => rw [hx] at this; simp at this; simp [this.2]
            have hlen : len - 1 = (lead ++ pfx :: dm).tail.length := by simp [h4]
            rw [hlen, hcs, basicVarNums_skip]
            apply ih r2 _ (a ++ [l]) _ (by simp [ha]) (Or.inr ⟨a, l, rfl, hl⟩)
            have : (c :: cs).length = (lead ++ pfx :: dm).length + r2.length := by
              rw [h1]; simp; omega
            simp at this hk; omega
      · rename_i hm
        -- no match at the head: the variable is further on
        rcases hb with ⟨rfl, rfl⟩ | ⟨p, l, rfl, hl⟩
        · exfalso
          simp only [List.nil_append] at hs
          rw [hs] at hm
          have := basicVarMatchAt_hit_start py pfx ds post hds hpost
          simp only [List.cons_append, beq_self_eq_true] at this hm
          rw [this] at hm; cases hm
        · cases p with
          | nil =>
            exfalso
            rw [hs] at hm
            have := basicVarMatchAt_hit_lead py pfx (pos == 0) l ds post hl hds hpost
            simp only [List.nil_append, List.cons_append] at this hm
            rw [this] at hm; cases hm
          | cons x p =>
            simp only [List.cons_append, List.cons.injEq] at hs
            exact ih cs (pos + 1) (p ++ [l]) (by simp at hk; omega) hs.2 (Or.inr ⟨p, l, rfl, hl⟩)

/-! ### `parse_array_variables` -/

/-- `n` occurs as an array variable `pfx[n]` in `s` -/
def OccursArray (pfx : Char) (n : Nat) (s : Str) : Prop :=
  ∃ pre ds post, s = pre ++ [pfx, '['] ++ ds ++ [']'] ++ post ∧ isFieldNum ds = true ∧ digitsToNat ds = n ∧
    BoundBefore pre

/-- `pre` ends with a text of the shape `pfx[digits]` -/
def EndsWithArrayVar (pfx : Char) (pre : Str) : Prop :=
  ∃ p0 dm, pre = p0 ++ pfx :: '[' :: dm ++ [']'] ∧ isFieldNum dm = true

theorem EndsWithArrayVar.append_left {pfx : Char} {b : Str} (a : Str) (h : EndsWithArrayVar pfx b) :
    EndsWithArrayVar pfx (a ++ b) := by
  obtain ⟨p0, dm, h1, h2⟩ := h
  exact ⟨a ++ p0, dm, by simp [h1], h2⟩

theorem arrayVarItem_hit (pfx : Char) (ds post : Str) (hds : isFieldNum ds = true) :
    arrayVarItem pfx (pfx :: '[' :: ds ++ ']' :: post) = some (digitsToNat ds, 3 + ds.length) := by
  have := takeFieldNum_hit ds (']' :: post) hds (by intro c t h; cases h; decide)
  simp only [arrayVarItem, List.cons_append, beq_self_eq_true, if_true, this]

theorem arrayVarItem_some {pfx : Char} {s : Str} {n len : Nat} (h : arrayVarItem pfx s = some (n, len)) :
    ∃ ds r2, s = pfx :: '[' :: ds ++ ']' :: r2 ∧ isFieldNum ds = true ∧ n = digitsToNat ds ∧ len = 3 + ds.length := by
  unfold arrayVarItem at h
  split at h
  · rename_i p r
    split at h
    · rename_i hp
      split at h
      · rename_i ds r2 htf
        simp only [Option.some.injEq, Prod.mk.injEq] at h
        obtain ⟨hr, hds, _⟩ := takeFieldNum_some htf
        exact ⟨ds, r2, by rw [hr, eq_of_beq hp]; rfl, hds, h.1.symm, h.2.symm⟩
      · cases h
    · cases h
  · cases h

theorem arrayVarItem_shifted (pfx l : Char) (t : Str) :
    arrayVarItem pfx (l :: pfx :: '[' :: t) = none := by
  cases h : arrayVarItem pfx (l :: pfx :: '[' :: t) with
  | none => rfl
  | some m =>
    exfalso
    obtain ⟨n, len⟩ := m
    obtain ⟨ds, r2, h1, h2, _⟩ := arrayVarItem_some h
    cases ds with
    | nil => simp [isFieldNum] at h2
    | cons d ds =>
      simp only [List.cons_append, List.cons.injEq] at h1
      have := isFieldNum_digits h2 d (List.mem_cons_self ..)
      rw [← h1.2.2.1] at this; revert this; decide

theorem arrayVarMatchAt_some {pfx : Char} {b : Bool} {s : Str} {n len : Nat}
    (h : arrayVarMatchAt pfx b s = some (n, len)) :
    ∃ lead ds r2, s = lead ++ pfx :: '[' :: ds ++ ']' :: r2 ∧ isFieldNum ds = true ∧ n = digitsToNat ds ∧
      len = lead.length + 3 + ds.length ∧
      ((lead = [] ∧ b = true) ∨ ∃ l, lead = [l] ∧ isWordChar l = false) := by
  unfold arrayVarMatchAt at h
  split at h
  · rename_i m hm
    cases b with
    | false => simp at hm
    | true =>
      simp only [if_true] at hm
      simp only [Option.some.injEq] at h
      subst h
      obtain ⟨ds, r2, h1, h2, h3, h4⟩ := arrayVarItem_some hm
      exact ⟨[], ds, r2, by simpa using h1, h2, h3, by simpa using h4, Or.inl ⟨rfl, rfl⟩⟩
  · cases s with
    | nil => simp at h
    | cons c t =>
      simp only at h
      split at h
      · rename_i hc
        cases hm : arrayVarItem pfx t with
        | none => simp [hm] at h
        | some m =>
          obtain ⟨n', len'⟩ := m
          simp only [hm, Option.map_some, Option.some.injEq, Prod.mk.injEq] at h
          obtain ⟨ds, r2, h1, h2, h3, h4⟩ := arrayVarItem_some hm
          refine ⟨[c], ds, r2, by simp [h1], h2, by rw [← h.1, h3], by simp; omega, Or.inr ⟨c, rfl, by simpa using hc⟩⟩
      · cases h

theorem arrayVarMatchAt_hit_start (pfx : Char) (ds post : Str) (hds : isFieldNum ds = true) :
    arrayVarMatchAt pfx true (pfx :: '[' :: ds ++ ']' :: post) = some (digitsToNat ds, 3 + ds.length) := by
  simp only [arrayVarMatchAt, if_true, arrayVarItem_hit pfx ds post hds]

theorem arrayVarMatchAt_hit_lead (pfx : Char) (b : Bool) (l : Char) (ds post : Str)
    (hl : isWordChar l = false) (hds : isFieldNum ds = true) :
    arrayVarMatchAt pfx b (l :: pfx :: '[' :: ds ++ ']' :: post) = some (digitsToNat ds, 3 + ds.length + 1) := by
  have h0 : (if b = true then arrayVarItem pfx (l :: pfx :: '[' :: (ds ++ ']' :: post)) else none) = none := by
    cases b with
    | false => rfl
    | true => simpa using arrayVarItem_shifted pfx l (ds ++ ']' :: post)
  have h1 := arrayVarItem_hit pfx ds post hds
  simp only [List.cons_append] at h1
  simp only [arrayVarMatchAt, List.cons_append, h0, hl, Bool.not_false, if_true, h1, Option.map_some]

theorem arrayVarNums_skip (pfx : Char) (xs rest : Str) (pos : Nat) :
    arrayVarNums pfx xs.length pos (xs ++ rest) = arrayVarNums pfx 0 (pos + xs.length) rest := by
  induction xs generalizing pos with
  | nil => simp
  | cons x xs ih =>
    simp only [List.length_cons, List.cons_append, arrayVarNums]
    rw [ih]; congr 1; omega

theorem arrayVarNums_sound_aux (pfx : Char) (s : Str) : ∀ (skip pos n : Nat),
    n ∈ arrayVarNums pfx skip pos s →
    ∃ pre ds post, s = pre ++ pfx :: '[' :: ds ++ ']' :: post ∧ isFieldNum ds = true ∧ digitsToNat ds = n ∧
      BeforeAt pre pos := by
  induction s with
  | nil => intro skip pos n h; simp [arrayVarNums] at h
  | cons c cs ih =>
    have lift : ∀ pos n, (∃ pre ds post, cs = pre ++ pfx :: '[' :: ds ++ ']' :: post ∧ isFieldNum ds = true ∧
        digitsToNat ds = n ∧ BeforeAt pre (pos + 1)) →
        ∃ pre ds post, c :: cs = pre ++ pfx :: '[' :: ds ++ ']' :: post ∧ isFieldNum ds = true ∧ digitsToNat ds = n ∧
        BeforeAt pre pos := by
      rintro pos n ⟨pre, ds, post, h1, h2, h3, h4⟩
      refine ⟨c :: pre, ds, post, by simp [h1], h2, h3, ?_⟩
      rcases h4 with ⟨_, h⟩ | ⟨p, l, hp, hl⟩
      · omega
      · exact Or.inr ⟨c :: p, l, by simp [hp], hl⟩
    intro skip pos n h
    cases skip with
    | succ skip =>
      simp only [arrayVarNums] at h
      exact lift pos n (ih _ _ _ h)
    | zero =>
      simp only [arrayVarNums] at h
      split at h
      · rename_i m len hm
        rcases List.mem_cons.mp h with rfl | h
        · obtain ⟨lead, ds, r2, h1, h2, h3, _, h6⟩ := arrayVarMatchAt_some hm
          refine ⟨lead, ds, r2, h1, h2, h3.symm, ?_⟩
          rcases h6 with ⟨rfl, hb⟩ | ⟨l, rfl, hl⟩
          · exact Or.inl ⟨rfl, by simpa using hb⟩
          · exact Or.inr ⟨[], l, rfl, hl⟩
        · exact lift pos n (ih _ _ _ h)
      · exact lift pos n (ih _ _ _ h)

/-- a match `pfx[dm]` that starts before the leading non-word character `l` of an array variable ends before `l`,
unless `l` is the closing bracket of the match -/
theorem array_overlap (pfx l : Char) (hl : isWordChar l = false) (dm q r2 rest : Str) (hdm : isFieldNum dm = true)
    (h : pfx :: '[' :: dm ++ ']' :: r2 = q ++ l :: pfx :: '[' :: rest) :
    (∃ a, r2 = a ++ l :: pfx :: '[' :: rest) ∨ (l = ']' ∧ q = pfx :: '[' :: dm) := by
  have hdig := isFieldNum_digits hdm
  have hld := not_isDigit_of_not_isWordChar hl
  have hne := isFieldNum_ne_nil hdm
  cases q with
  | nil =>
    -- `l` would be the prefix character of the match
    exfalso
    cases dm with
    | nil => exact hne rfl
    | cons d dm =>
      simp only [List.cons_append, List.nil_append, List.cons.injEq] at h
      have := hdig d (List.mem_cons_self ..)
      rw [h.2.2.1] at this; revert this; decide
  | cons x q =>
    cases q with
    | nil =>
      -- `l` would be the opening bracket of the match
      exfalso
      cases dm with
      | nil => exact hne rfl
      | cons d dm =>
        cases dm with
        | nil => simp at h
        | cons d' dm =>
          simp only [List.cons_append, List.nil_append, List.cons.injEq] at h
          have := hdig d' (by simp)
          rw [h.2.2.2.1] at this; revert this; decide
    | cons y q =>
      simp only [List.cons_append, List.cons.injEq] at h
      obtain ⟨a, ha, hq⟩ := overlap_run isDigit l hld dm q (']' :: r2) (pfx :: '[' :: rest) hdig h.2.2
      cases a with
      | nil =>
        right
        simp only [List.nil_append, List.cons.injEq] at ha
        exact ⟨ha.1.symm, by rw [← h.1, ← h.2.1, hq]; simp⟩
      | cons z a =>
        left
        simp only [List.cons_append, List.cons.injEq] at ha
        exact ⟨a, ha.2⟩

theorem arrayVarNums_complete_aux (pfx : Char) (ds post : Str) (hds : isFieldNum ds = true) :
    ∀ (k : Nat) (s : Str) (pos : Nat) (pre : Str), s.length ≤ k →
      s = pre ++ pfx :: '[' :: ds ++ ']' :: post → BeforeAt pre pos → ¬ EndsWithArrayVar pfx pre →
      digitsToNat ds ∈ arrayVarNums pfx 0 pos s := by
  intro k
  induction k with
  | zero =>
    intro s pos pre hk hs _ _
    rw [hs] at hk; simp at hk
  | succ k ih =>
    intro s pos pre hk hs hb hne
    cases s with
    | nil => cases pre <;> simp at hs
    | cons c cs =>
      rw [arrayVarNums]
      split
      · rename_i m len hm
        rcases hb with ⟨rfl, rfl⟩ | ⟨p, l, rfl, hl⟩
        · simp only [List.nil_append] at hs
          rw [hs] at hm
          have := arrayVarMatchAt_hit_start pfx ds post hds
          simp only [List.cons_append] at this hm
          simp only [beq_self_eq_true] at hm
          rw [this] at hm
          simp only [Option.some.injEq, Prod.mk.injEq] at hm
          rw [hm.1]; exact List.mem_cons_self ..
        · obtain ⟨lead, dm, r2, h1, h2, h3, h4, h6⟩ := arrayVarMatchAt_some hm
          have key : m = digitsToNat ds ∨ ∃ a, r2 = a ++ l :: pfx :: '[' :: (ds ++ ']' :: post) := by
            rcases h6 with ⟨rfl, _⟩ | ⟨l', rfl, hl'⟩
            · right
              simp only [List.nil_append] at h1
              rw [hs] at h1
              rcases array_overlap pfx l hl dm p r2 (ds ++ ']' :: post) h2 (by simpa using h1.symm) with h | ⟨h, h'⟩
              · exact h
              · exact absurd ⟨[], dm, by simp [h, h'], h2⟩ hne
            · cases p with
              | nil =>
                left
                rw [hs] at hm
                have := arrayVarMatchAt_hit_lead pfx (pos == 0) l ds post hl hds
                simp only [List.nil_append, List.cons_append] at this hm
                rw [this] at hm
                simp only [Option.some.injEq, Prod.mk.injEq] at hm
                exact hm.1.symm
              | cons x p =>
                right
                rw [hs] at h1
                simp only [List.cons_append, List.append_assoc, List.nil_append, List.cons.injEq] at h1
                rcases array_overlap pfx l hl dm p r2 (ds ++ ']' :: post) h2 (by simpa using h1.2.symm) with h | ⟨h, h'⟩
                · exact h
                · exact absurd ⟨[x], dm, by simp [h, h'], h2⟩ hne
          rcases key with rfl | ⟨a, ha⟩
          · exact List.mem_cons_self ..
          · apply List.mem_cons_of_mem
            have hcs : cs = (lead ++ pfx :: '[' :: dm ++ [']']).tail ++ r2 := by
              have : c :: cs = (lead ++ pfx :: '[' :: dm ++ [']']) ++ r2 := by simpa using h1
              cases hx : lead ++ pfx :: '[' :: dm ++ [']'] with
              | nil => cases lead <;> simp at hx
              | cons y ys => rw [hx] at this; simp at this; simp [this.2]
            have hlen : len - 1 = (lead ++ pfx :: '[' :: dm ++ [']']).tail.length := by simp [h4]; omega
            rw [hlen, hcs, arrayVarNums_skip]
            have hpre : p ++ [l] = (lead ++ pfx :: '[' :: dm ++ [']']) ++ (a ++ [l]) := by
              have e1 : c :: cs = (p ++ [l]) ++ (pfx :: '[' :: ds ++ ']' :: post) := by simpa using hs
              rw [h1, ha] at e1
              have e2 : ((lead ++ pfx :: '[' :: dm ++ [']']) ++ (a ++ [l])) ++ (pfx :: '[' :: ds ++ ']' :: post)
                  = (p ++ [l]) ++ (pfx :: '[' :: ds ++ ']' :: post) := by simpa using e1
              exact (List.append_cancel_right e2).symm
            apply ih r2 _ (a ++ [l]) _ (by simp [ha]) (Or.inr ⟨a, l, rfl, hl⟩)
            · intro he; exact hne (hpre ▸ he.append_left _)
            · have : (c :: cs).length = (lead ++ pfx :: '[' :: dm ++ [']']).length + r2.length := by
                rw [h1]; simp; omega
              simp at this hk; omega
      · rename_i hm
        rcases hb with ⟨rfl, rfl⟩ | ⟨p, l, rfl, hl⟩
        · exfalso
          simp only [List.nil_append] at hs
          rw [hs] at hm
          have := arrayVarMatchAt_hit_start pfx ds post hds
          simp only [List.cons_append, beq_self_eq_true] at this hm
          rw [this] at hm; cases hm
        · cases p with
          | nil =>
            exfalso
            rw [hs] at hm
            have := arrayVarMatchAt_hit_lead pfx (pos == 0) l ds post hl hds
            simp only [List.nil_append, List.cons_append] at this hm
            rw [this] at hm; cases hm
          | cons x p =>
            simp only [List.cons_append, List.cons.injEq] at hs
            refine ih cs (pos + 1) (p ++ [l]) (by simp at hk; omega) hs.2 (Or.inr ⟨p, l, rfl, hl⟩) ?_
            intro he; exact hne (he.append_left [x])

/-! ### `translate_update_expression`: rendering of assignment lists -/

/-- one assignment: (spaces before the variable, variable text, spaces after it, right-hand side) -/
abbrev AssignSpec := Nat × Str × Nat × Str

def AssignSpec.var (it : AssignSpec) : Str := it.2.1
def AssignSpec.rhs (it : AssignSpec) : Str := it.2.2.2

def spaces (n : Nat) : Str := List.replicate n ' '

/-- `pad v pad "=" r` -/
def renderAssign (it : AssignSpec) : Str := spaces it.1 ++ (it.2.1 ++ (spaces it.2.2.1 ++ '=' :: it.2.2.2))

/-- `"," a₁ "," a₂ …` -/
def renderAssignsTail : List AssignSpec → Str
  | [] => []
  | it :: rest => ',' :: (renderAssign it ++ renderAssignsTail rest)

/-- the assignments joined by commas -/
def renderAssigns : List AssignSpec → Str
  | [] => []
  | it :: rest => renderAssign it ++ renderAssignsTail rest

theorem renderAssigns_eq_intercalate (l : List AssignSpec) :
    renderAssigns l = [','].intercalate (l.map renderAssign) := by
  cases l with
  | nil => rfl
  | cons it rest =>
    simp only [renderAssigns, List.map_cons]
    induction rest generalizing it with
    | nil => simp [renderAssignsTail, List.intercalate]
    | cons it' rest ih =>
      have := ih it'
      simp [renderAssignsTail, List.intercalate] at this ⊢
      rw [this]

/-- `a[.#a-zA-Z0-9\[\]_]*` -/
def VarOk : Str → Bool
  | 'a' :: cs => cs.all isAssignVarChar
  | _ => false

/-- no `, *a… *=(?=[^=])` inside `s` -/
def noCommaAssign : Str → Bool
  | [] => true
  | c :: cs => (c != ',' || (assignItem cs).isNone) && noCommaAssign cs

/-- a right-hand side the splitter leaves intact: non-empty, not starting with `=` (that would turn the `=` of the
assignment into `==`), and the assignment scanner finds no match in it when it is followed by the separating comma -/
def RhsOk (r : Str) : Bool := !r.isEmpty && r.head? != some '=' && (assignMatches 0 1 (r ++ [','])).isEmpty

/-! ### `assignItem` -/

theorem dropSpaces_spaces (n : Nat) (t : Str) : dropSpaces (spaces n ++ t) = dropSpaces t := by
  induction n with
  | zero => rfl
  | succ n ih =>
    simp only [spaces, dropSpaces] at ih ⊢
    simp only [List.replicate_succ, List.cons_append, List.dropWhile_cons, beq_self_eq_true, if_true, ih]

theorem dropSpaces_cons_ne (c : Char) (t : Str) (h : c ≠ ' ') : dropSpaces (c :: t) = c :: t := by
  simp [dropSpaces, h]

theorem assignItem_hit (p1 p2 : Nat) (cs : Str) (c : Char) (R : Str) (hcs : ∀ x ∈ cs, isAssignVarChar x = true)
    (hc : c ≠ '=') :
    assignItem (spaces p1 ++ ('a' :: (cs ++ (spaces p2 ++ '=' :: c :: R)))) = some ('a' :: cs, p1 + (cs.length + 1) + p2 + 1) := by
  have h2 : ∀ x t, spaces p2 ++ '=' :: c :: R = x :: t → isAssignVarChar x = false := by
    intro x t h
    cases p2 with
    | zero => simp only [spaces, List.replicate_zero, List.nil_append, List.cons.injEq] at h; rw [← h.1]; decide
    | succ p2 => simp only [spaces, List.replicate_succ, List.cons_append, List.cons.injEq] at h; rw [← h.1]; decide
  obtain ⟨e1, e2⟩ := takeWhile_dropWhile_append isAssignVarChar cs _ hcs h2
  unfold assignItem
  rw [dropSpaces_spaces, dropSpaces_cons_ne _ _ (by decide)]
  simp only [e1, e2, dropSpaces_spaces, dropSpaces_cons_ne _ _ (show '=' ≠ ' ' by decide), bne_iff_ne, ne_eq, hc,
    not_false_eq_true, if_true, Option.some.injEq, Prod.mk.injEq, true_and]
  simp [spaces]; omega

theorem dropWhile_append_barrier (p : Char → Bool) (b : Char) (hb : p b = false) (t X : Str) :
    (t ++ b :: X).dropWhile p = t.dropWhile p ++ b :: X := by
  induction t with
  | nil => simp [hb]
  | cons c t ih =>
    simp only [List.cons_append, List.dropWhile_cons]
    split
    · exact ih
    · rfl

theorem takeWhile_append_barrier (p : Char → Bool) (b : Char) (hb : p b = false) (t X : Str) :
    (t ++ b :: X).takeWhile p = t.takeWhile p := by
  induction t with
  | nil => simp [hb]
  | cons c t ih =>
    simp only [List.cons_append, List.takeWhile_cons]
    split
    · rw [ih]
    · rfl

/-- the shape of the text after the spaces of an assignment candidate -/
theorem assignItem_isSome_iff (s : Str) :
    (assignItem s).isSome = true ↔
      ∃ r c r3, dropSpaces s = 'a' :: r ∧ dropSpaces (r.dropWhile isAssignVarChar) = '=' :: c :: r3 ∧ c ≠ '=' := by
  unfold assignItem
  constructor
  · intro h
    split at h
    · rename_i r hr
      simp only at h
      split at h
      · rename_i c r3 hw
        refine ⟨r, c, r3, hr, hw, ?_⟩
        by_cases hc : c = '='
        · simp [hc] at h
        · exact hc
      · simp at h
    · simp at h
  · rintro ⟨r, c, r3, h1, h2, h3⟩
    rw [h1]
    simp only [h2, bne_iff_ne, ne_eq, h3, not_false_eq_true, if_true, Option.isSome_some]

/-- a comma after the candidate decides nothing beyond being the look-ahead character -/
theorem assignItem_comma_ctx (t X : Str) (h : assignItem (t ++ [',']) = none) : assignItem (t ++ ',' :: X) = none := by
  cases h' : assignItem (t ++ ',' :: X) with
  | none => rfl
  | some m =>
    exfalso
    have hs : (assignItem (t ++ ',' :: X)).isSome = true := by simp [h']
    obtain ⟨r, c, r3, h1, h2, h3⟩ := (assignItem_isSome_iff _).mp hs
    have : (assignItem (t ++ [','])).isSome = true := by
      rw [assignItem_isSome_iff]
      rw [dropSpaces, dropWhile_append_barrier _ _ (by decide)] at h1
      rw [dropSpaces, dropWhile_append_barrier _ _ (by decide)]
      cases hu : t.dropWhile (· == ' ') with
      | nil => rw [hu] at h1; simp at h1
      | cons x r0 =>
        rw [hu] at h1
        simp only [List.cons_append, List.cons.injEq] at h1
        obtain ⟨rfl, rfl⟩ := h1
        rw [dropWhile_append_barrier _ _ (by decide), dropSpaces, dropWhile_append_barrier _ _ (by decide)] at h2
        cases hw : (r0.dropWhile isAssignVarChar).dropWhile (· == ' ') with
        | nil => rw [hw] at h2; simp at h2
        | cons y w =>
          rw [hw] at h2
          simp only [List.cons_append, List.cons.injEq] at h2
          have hA : (r0 ++ [',']).dropWhile isAssignVarChar = r0.dropWhile isAssignVarChar ++ [','] :=
            dropWhile_append_barrier _ _ (by decide) _ _
          have hB : dropSpaces ((r0 ++ [',']).dropWhile isAssignVarChar) = y :: w ++ [','] := by
            rw [hA, dropSpaces, dropWhile_append_barrier _ _ (by decide), hw]
          cases w with
          | nil =>
            simp only [List.nil_append, List.cons.injEq] at h2
            exact ⟨r0 ++ [','], ',', [], rfl, by rw [hB, h2.1]; rfl, by decide⟩
          | cons z w =>
            simp only [List.cons_append, List.cons.injEq] at h2
            exact ⟨r0 ++ [','], z, w ++ [','], rfl, by rw [hB, h2.1]; rfl, by rw [h2.2.1]; exact h3⟩
    rw [h] at this; simp at this

theorem assignItem_end_ctx (t : Str) (h : assignItem (t ++ [',']) = none) : assignItem t = none := by
  cases h' : assignItem t with
  | none => rfl
  | some m =>
    exfalso
    have hs : (assignItem t).isSome = true := by simp [h']
    obtain ⟨r, c, r3, h1, h2, h3⟩ := (assignItem_isSome_iff _).mp hs
    have : (assignItem (t ++ [','])).isSome = true := by
      rw [assignItem_isSome_iff]
      refine ⟨r ++ [','], c, r3 ++ [','], ?_, ?_, h3⟩
      · rw [dropSpaces, dropWhile_append_barrier _ _ (by decide)]
        rw [dropSpaces] at h1; rw [h1]; rfl
      · rw [dropWhile_append_barrier _ _ (by decide), dropSpaces, dropWhile_append_barrier _ _ (by decide)]
        rw [dropSpaces] at h2; rw [h2]; rfl
    rw [h] at this; simp at this

/-! ### `assignMatches` -/

theorem assignMatches_skip (xs rest : Str) (pos : Nat) :
    assignMatches xs.length pos (xs ++ rest) = assignMatches 0 (pos + xs.length) rest := by
  induction xs generalizing pos with
  | nil => simp
  | cons x xs ih =>
    simp only [List.length_cons, List.cons_append, assignMatches]
    rw [ih]; congr 1; omega

theorem assignMatchAt_false_cons (c : Char) (cs : Str) :
    assignMatchAt false (c :: cs) = if c = ',' then (assignItem cs).map (fun m => (m.1, m.2 + 1)) else none := by
  unfold assignMatchAt
  simp only [Bool.false_eq_true, if_false]
  by_cases hc : c = ','
  · subst hc; simp
  · simp only [hc, if_false]
    split
    · rename_i t h; simp only [List.cons.injEq] at h; exact absurd h.1 hc
    · rfl

theorem assignMatches_nil_iff (s : Str) : ∀ (pos : Nat), pos ≠ 0 →
    (assignMatches 0 pos s = [] ↔ noCommaAssign s = true) := by
  induction s with
  | nil => intro pos _; simp [assignMatches, noCommaAssign]
  | cons c cs ih =>
    intro pos hpos
    have hb : (pos == 0) = false := by simp [hpos]
    rw [assignMatches, hb, assignMatchAt_false_cons, noCommaAssign]
    by_cases hc : c = ','
    · cases hi : assignItem cs with
      | none => simp [hc, ih (pos + 1) (by omega)]
      | some m => simp [hc]
    · simp [hc, ih (pos + 1) (by omega)]

theorem assignItem_some_mem_eq {s : Str} (h : (assignItem s).isSome = true) : '=' ∈ s := by
  obtain ⟨r, c, r3, h1, h2, _⟩ := (assignItem_isSome_iff s).mp h
  have m1 : '=' ∈ dropSpaces (r.dropWhile isAssignVarChar) := by rw [h2]; simp
  have m2 : '=' ∈ r := (List.dropWhile_sublist _).mem ((List.dropWhile_sublist _).mem m1)
  have m3 : '=' ∈ dropSpaces s := by rw [h1]; exact List.mem_cons_of_mem _ m2
  exact (List.dropWhile_sublist _).mem m3

theorem noCommaAssign_of_no_eq (s : Str) (h : '=' ∉ s) : noCommaAssign s = true := by
  induction s with
  | nil => rfl
  | cons c cs ih =>
    simp only [List.mem_cons, not_or] at h
    have : assignItem cs = none := by
      cases hi : assignItem cs with
      | none => rfl
      | some m => exact absurd (assignItem_some_mem_eq (by simp [hi])) h.2
    simp [noCommaAssign, this, ih h.2]

/-- scanning a clean right-hand side (not at offset 0) finds nothing and arrives at the separator -/
theorem assignMatches_clean (r : Str) (hr : noCommaAssign (r ++ [',']) = true) (tail : Str)
    (ht : tail = [] ∨ ∃ X, tail = ',' :: X) : ∀ (pos : Nat), pos ≠ 0 →
    assignMatches 0 pos (r ++ tail) = assignMatches 0 (pos + r.length) tail := by
  induction r with
  | nil => intro pos _; simp
  | cons c cs ih =>
    intro pos hpos
    have hb : (pos == 0) = false := by simp [hpos]
    simp only [List.cons_append, noCommaAssign, Bool.and_eq_true, Bool.or_eq_true, bne_iff_ne, ne_eq,
      Option.isNone_iff_eq_none] at hr
    have hnone : assignMatchAt false (c :: (cs ++ tail)) = none := by
      rw [assignMatchAt_false_cons]
      split
      · rename_i hc
        have h1 : assignItem (cs ++ [',']) = none := by
          rcases hr.1 with h | h
          · exact absurd hc h
          · exact h
        rcases ht with rfl | ⟨X, rfl⟩
        · simp [assignItem_end_ctx cs h1]
        · simp [assignItem_comma_ctx cs X h1]
      · rfl
    simp only [List.cons_append, assignMatches, hb, hnone, List.length_cons]
    rw [ih hr.2 (pos + 1) (by omega)]; congr 1; omega

/-- a match of length `xs.length` at the head: the scan resumes right after it -/
theorem assignMatches_match (pos : Nat) (xs r2 : Str) (v : Str) (hx : xs ≠ [])
    (h : assignMatchAt (pos == 0) (xs ++ r2) = some (v, xs.length)) :
    assignMatches 0 pos (xs ++ r2) = (pos, pos + xs.length, v) :: assignMatches 0 (pos + xs.length) r2 := by
  cases xs with
  | nil => exact absurd rfl hx
  | cons c xs =>
    simp only [List.cons_append] at h
    simp only [List.cons_append, assignMatches, h, List.length_cons, Nat.add_sub_cancel]
    rw [assignMatches_skip]; congr 2; omega

theorem assignMatches_start_ge (s : Str) : ∀ (skip pos : Nat), ∀ m ∈ assignMatches skip pos s, pos ≤ m.1 := by
  induction s with
  | nil => intro skip pos m h; simp [assignMatches] at h
  | cons c cs ih =>
    intro skip pos m h
    cases skip with
    | succ skip =>
      simp only [assignMatches] at h
      have := ih _ _ m h; omega
    | zero =>
      simp only [assignMatches] at h
      split at h
      · rcases List.mem_cons.mp h with rfl | h
        · exact Nat.le_refl _
        · have := ih _ _ m h; omega
      · have := ih _ _ m h; omega

/-! ### the matches of a rendered assignment list -/

/-- both components of an assignment are well-formed -/
def AssignOk (it : AssignSpec) : Bool := VarOk it.var && RhsOk it.rhs

/-- length of `pad v pad =` -/
def AssignSpec.headLen (it : AssignSpec) : Nat := it.1 + it.var.length + it.2.2.1 + 1

/-- the matches of `renderAssignsTail items` when it starts at offset `pos` -/
def matchesTail : Nat → List AssignSpec → List (Nat × Nat × Str)
  | _, [] => []
  | pos, it :: rest =>
    (pos, pos + (it.headLen + 1), it.var) :: matchesTail (pos + (it.headLen + 1) + it.rhs.length) rest

theorem varOk_iff (v : Str) : VarOk v = true ↔ ∃ cs, v = 'a' :: cs ∧ ∀ x ∈ cs, isAssignVarChar x = true := by
  cases v with
  | nil => simp [VarOk]
  | cons c cs =>
    by_cases hc : c = 'a'
    · subst hc; simp [VarOk]
    · constructor
      · intro h
        unfold VarOk at h
        split at h
        · rename_i h'; simp only [List.cons.injEq] at h'; exact absurd h'.1 hc
        · cases h
      · rintro ⟨cs', h, _⟩
        simp only [List.cons.injEq] at h; exact absurd h.1 hc

theorem rhsOk_iff (r : Str) : RhsOk r = true ↔
    ∃ c r', r = c :: r' ∧ c ≠ '=' ∧ noCommaAssign (r ++ [',']) = true := by
  have hn := assignMatches_nil_iff (r ++ [',']) 1 (by omega)
  cases r with
  | nil => simp [RhsOk]
  | cons c r' =>
    simp only [RhsOk, List.isEmpty_cons, Bool.not_false, List.head?_cons, bne_iff_ne, ne_eq, Option.some.injEq,
      Bool.true_and, Bool.and_eq_true, List.isEmpty_iff, hn]
    constructor
    · rintro ⟨h1, h2⟩; exact ⟨c, r', rfl, h1, h2⟩
    · rintro ⟨c', r'', h0, h1, h2⟩
      simp only [List.cons.injEq] at h0
      exact ⟨h0.1 ▸ h1, h2⟩

theorem renderAssign_decomp (it : AssignSpec) (hok : AssignOk it = true) (tail : Str) :
    assignItem (renderAssign it ++ tail) = some (it.var, it.headLen) ∧
    ∃ hd, renderAssign it ++ tail = hd ++ (it.rhs ++ tail) ∧ hd.length = it.headLen := by
  obtain ⟨p1, v, p2, r⟩ := it
  simp only [AssignOk, AssignSpec.var, AssignSpec.rhs, Bool.and_eq_true] at hok
  obtain ⟨cs, rfl, hcs⟩ := (varOk_iff v).mp hok.1
  obtain ⟨c, r', rfl, hc, _⟩ := (rhsOk_iff r).mp hok.2
  constructor
  · have := assignItem_hit p1 p2 cs c (r' ++ tail) hcs hc
    simpa only [renderAssign, AssignSpec.var, AssignSpec.headLen, List.append_assoc, List.cons_append,
      List.length_cons] using this
  · refine ⟨spaces p1 ++ ('a' :: cs ++ (spaces p2 ++ ['='])), ?_, ?_⟩
    · simp only [renderAssign, AssignSpec.rhs, List.append_assoc, List.cons_append, List.nil_append]
    · simp [AssignSpec.headLen, AssignSpec.var, spaces]; omega

theorem renderAssignsTail_shape (items : List AssignSpec) :
    renderAssignsTail items = [] ∨ ∃ X, renderAssignsTail items = ',' :: X := by
  cases items with
  | nil => exact Or.inl rfl
  | cons it rest => exact Or.inr ⟨_, rfl⟩

theorem assignMatches_tail (items : List AssignSpec) (hok : ∀ it ∈ items, AssignOk it = true) :
    ∀ (pos : Nat), pos ≠ 0 → assignMatches 0 pos (renderAssignsTail items) = matchesTail pos items := by
  induction items with
  | nil => intro pos _; rfl
  | cons it rest ih =>
    intro pos hpos
    have hit := hok it (List.mem_cons_self ..)
    obtain ⟨h1, hd, h2, h3⟩ := renderAssign_decomp it hit (renderAssignsTail rest)
    have hclean : noCommaAssign (it.rhs ++ [',']) = true := by
      simp only [AssignOk, Bool.and_eq_true] at hit
      obtain ⟨_, _, _, _, h⟩ := (rhsOk_iff _).mp hit.2
      exact h
    have hb : (pos == 0) = false := by simp [hpos]
    have e : renderAssignsTail (it :: rest) = (',' :: hd) ++ (it.rhs ++ renderAssignsTail rest) := by
      simp only [renderAssignsTail, h2, List.cons_append]
    have hm : assignMatchAt (pos == 0) ((',' :: hd) ++ (it.rhs ++ renderAssignsTail rest)) =
        some (it.var, (',' :: hd).length) := by
      rw [hb, List.cons_append, assignMatchAt_false_cons, if_pos rfl, ← h2, h1]
      simp [h3]
    rw [e, assignMatches_match pos _ _ _ (by simp) hm,
      assignMatches_clean _ hclean _ (renderAssignsTail_shape rest) _ (by simp),
      ih (fun it' h => hok it' (List.mem_cons_of_mem _ h)) _ (by simp)]
    simp only [matchesTail, List.length_cons, h3]

theorem assignMatches_render (it : AssignSpec) (rest : List AssignSpec)
    (hok : ∀ it' ∈ it :: rest, AssignOk it' = true) :
    assignMatches 0 0 (renderAssigns (it :: rest)) =
      (0, it.headLen, it.var) :: matchesTail (it.headLen + it.rhs.length) rest := by
  have hit := hok it (List.mem_cons_self ..)
  obtain ⟨h1, hd, h2, h3⟩ := renderAssign_decomp it hit (renderAssignsTail rest)
  have hclean : noCommaAssign (it.rhs ++ [',']) = true := by
    simp only [AssignOk, Bool.and_eq_true] at hit
    obtain ⟨_, _, _, _, h⟩ := (rhsOk_iff _).mp hit.2
    exact h
  have hne : hd ≠ [] := by
    intro h; rw [h] at h3; simp [AssignSpec.headLen] at h3
  have hm : assignMatchAt ((0 : Nat) == 0) (hd ++ (it.rhs ++ renderAssignsTail rest)) = some (it.var, hd.length) := by
    rw [← h2]
    simp only [assignMatchAt, beq_self_eq_true, if_true, h1, h3]
  have hpos : hd.length ≠ 0 := by rw [h3]; simp [AssignSpec.headLen]
  rw [renderAssigns, h2, assignMatches_match 0 _ _ _ hne hm,
    assignMatches_clean _ hclean _ (renderAssignsTail_shape rest) _ (by simpa using hpos),
    assignMatches_tail rest (fun it' h => hok it' (List.mem_cons_of_mem _ h)) _ (by omega)]
  simp only [Nat.zero_add, h3]

/-- the slicing loop of `updatePairs` over the matches of a rendered tail -/
theorem updatePairs_go_tail (strip : Str → Str) (rest : List AssignSpec)
    (hok : ∀ it ∈ rest, AssignOk it = true) :
    ∀ (s P v r : Str), s = P ++ (r ++ renderAssignsTail rest) →
      updatePairs.go strip s v P.length (matchesTail (P.length + r.length) rest) =
        (v, strip r) :: rest.map (fun it => (it.var, strip it.rhs)) := by
  induction rest with
  | nil =>
    intro s P v r hs
    simp only [matchesTail, updatePairs.go, List.map_nil, hs, renderAssignsTail, List.append_nil,
      List.drop_left]
  | cons it rest ih =>
    intro s P v r hs
    obtain ⟨_, hd, h2, h3⟩ := renderAssign_decomp it (hok it (List.mem_cons_self ..)) (renderAssignsTail rest)
    have hs' : s = (P ++ r ++ ',' :: hd) ++ (it.rhs ++ renderAssignsTail rest) := by
      rw [hs, renderAssignsTail, h2]; simp
    have hslice : slice s P.length (P.length + r.length) = r := by
      rw [hs]; simp [slice]
    have := ih (fun it' h => hok it' (List.mem_cons_of_mem _ h)) s (P ++ r ++ ',' :: hd) it.var it.rhs hs'
    simp only [List.length_append, List.length_cons, h3] at this
    simp only [matchesTail, updatePairs.go, hslice, List.map_cons, List.cons.injEq, true_and]
    rw [← this]

/-! ### `updatePairs` and `translateUpdate` on rendered lists -/

/-- results of the translation layer can be compared by `decide` (used by the concrete examples) -/
instance updateVarsDecEqExcept {ε α : Type} [DecidableEq ε] [DecidableEq α] : DecidableEq (Except ε α)
  | .ok a, .ok b => if h : a = b then isTrue (by rw [h]) else isFalse (by intro h'; cases h'; exact h rfl)
  | .error a, .error b => if h : a = b then isTrue (by rw [h]) else isFalse (by intro h'; cases h'; exact h rfl)
  | .ok _, .error _ => isFalse (by intro h; cases h)
  | .error _, .ok _ => isFalse (by intro h; cases h)

theorem updatePairs_render (strip : Str → Str) (l : List AssignSpec) (hne : l ≠ [])
    (hok : ∀ it ∈ l, AssignOk it = true) :
    updatePairs strip (renderAssigns l) = .ok (l.map (fun it => (it.var, strip it.rhs))) := by
  cases l with
  | nil => exact absurd rfl hne
  | cons it rest =>
    obtain ⟨_, hd, h2, h3⟩ := renderAssign_decomp it (hok it (List.mem_cons_self ..)) (renderAssignsTail rest)
    have hgo := updatePairs_go_tail strip rest (fun it' h => hok it' (List.mem_cons_of_mem _ h))
      (renderAssigns (it :: rest)) hd it.var it.rhs (by rw [renderAssigns, h2])
    rw [h3] at hgo
    unfold updatePairs
    rw [assignMatches_render it rest hok]
    simp only [bne_self_eq_false, Bool.false_eq_true, if_false, hgo, List.map_cons]

theorem updatePairs_no_start (strip : Str → Str) (s : Str) (h : assignMatchAt true s = none) :
    updatePairs strip s = .error .updNotAssignment := by
  unfold updatePairs
  cases s with
  | nil => simp [assignMatches]
  | cons c cs =>
    rw [assignMatches]
    simp only [beq_self_eq_true, h]
    cases hm : assignMatches 0 (0 + 1) cs with
    | nil => rfl
    | cons m rest =>
      obtain ⟨st0, en0, v0⟩ := m
      have := assignMatches_start_ge cs 0 (0 + 1) (st0, en0, v0) (by rw [hm]; exact List.mem_cons_self ..)
      have hst : (st0 != 0) = true := by simp at this ⊢; omega
      simp only [hst, if_true]

theorem mapM_except_map {α β γ ε : Type} (f : α → β) (g : β → Except ε γ) (l : List α) :
    (l.map f).mapM g = l.mapM (fun x => g (f x)) := by
  induction l with
  | nil => rfl
  | cons x xs ih => simp [List.mapM_cons, ih]

theorem translateUpdate_render (strip : Str → Str) (lookup : Str → Option Nat) (l : List AssignSpec)
    (hne : l ≠ []) (hok : ∀ it ∈ l, AssignOk it = true) :
    translateUpdate strip lookup [] (renderAssigns l) =
      l.mapM (fun it => match lookup (strip it.var) with
        | some i => .ok (i, strip it.rhs)
        | none => .error (.updUnknownField (strip it.var))) := by
  unfold translateUpdate
  rw [updatePairs_render strip l hne hok]
  simp only [bind, Except.bind, mapM_except_map]
  rfl

theorem mapM_lookup_all (strip : Str → Str) (lookup : Str → Option Nat) (idx : Str → Nat) (l : List AssignSpec)
    (h : ∀ it ∈ l, lookup (strip it.var) = some (idx it.var)) :
    l.mapM (fun it => match lookup (strip it.var) with
        | some i => (.ok (i, strip it.rhs) : Except TranslateErr (Nat × Str))
        | none => .error (.updUnknownField (strip it.var))) =
      .ok (l.map (fun it => (idx it.var, strip it.rhs))) := by
  induction l with
  | nil => rfl
  | cons x xs ih =>
    rw [List.mapM_cons, ih (fun it hit => h it (List.mem_cons_of_mem _ hit)), h x (List.mem_cons_self ..)]
    rfl

theorem mapM_lookup_first_unknown (strip : Str → Str) (lookup : Str → Option Nat) (idx : Str → Nat)
    (l1 l2 : List AssignSpec) (it : AssignSpec)
    (h : ∀ it' ∈ l1, lookup (strip it'.var) = some (idx it'.var)) (hu : lookup (strip it.var) = none) :
    (l1 ++ it :: l2).mapM (fun it => match lookup (strip it.var) with
        | some i => (.ok (i, strip it.rhs) : Except TranslateErr (Nat × Str))
        | none => .error (.updUnknownField (strip it.var))) =
      .error (.updUnknownField (strip it.var)) := by
  induction l1 with
  | nil =>
    rw [List.nil_append, List.mapM_cons, hu]; rfl
  | cons x xs ih =>
    rw [List.cons_append, List.mapM_cons, ih (fun it hit => h it (List.mem_cons_of_mem _ hit)),
      h x (List.mem_cons_self ..)]
    rfl

/-! ### stripping a variable text is the identity -/

theorem char_le_iff' (a b : Char) : a ≤ b ↔ a.toNat ≤ b.toNat :=
  Iff.trans Char.le_def UInt32.le_iff_toNat_le

theorem isAssignVarChar_range {c : Char} (h : isAssignVarChar c = true) : 35 ≤ c.toNat ∧ c.toNat ≤ 122 := by
  simp only [isAssignVarChar, isAlpha, isDigit, Bool.or_eq_true, beq_iff_eq, decide_eq_true_eq, char_le_iff'] at h
  have e1 : 'a'.toNat = 97 := rfl
  have e2 : 'z'.toNat = 122 := rfl
  have e3 : 'A'.toNat = 65 := rfl
  have e4 : 'Z'.toNat = 90 := rfl
  have e5 : '0'.toNat = 48 := rfl
  have e6 : '9'.toNat = 57 := rfl
  rcases h with (((((h | h) | h) | h) | h) | h) | h
  · subst h; decide
  · subst h; decide
  · omega
  · omega
  · subst h; decide
  · subst h; decide
  · subst h; decide

theorem stripBy_id (p : Char → Bool) (s : Str) (h : ∀ c ∈ s, p c = false) : stripBy p s = s := by
  have d : ∀ t : Str, (∀ c ∈ t, p c = false) → t.dropWhile p = t := by
    intro t ht
    cases t with
    | nil => rfl
    | cons c t => simp [ht c (List.mem_cons_self ..)]
  unfold stripBy
  rw [d s h, d s.reverse (fun c hc => h c (List.mem_reverse.mp hc)), List.reverse_reverse]

theorem varOk_chars {v : Str} (hv : VarOk v = true) : ∀ c ∈ v, 35 ≤ c.toNat ∧ c.toNat ≤ 122 := by
  obtain ⟨cs, rfl, hcs⟩ := (varOk_iff v).mp hv
  intro c hc
  rcases List.mem_cons.mp hc with rfl | hc
  · decide
  · exact isAssignVarChar_range (hcs c hc)

theorem pyStripU_var {v : Str} (hv : VarOk v = true) : pyStripU v = v := by
  apply stripBy_id
  intro c hc
  have := varOk_chars hv c hc
  simp only [isPyWsU, decide_eq_false_iff_not]
  omega

theorem jsStrStrip_var {v : Str} (hv : VarOk v = true) : jsStrStrip v = v := by
  apply stripBy_id
  intro c hc
  have := varOk_chars hv c hc
  have e : ' '.toNat = 32 := rfl
  simp only [beq_eq_false_iff_ne, ne_eq]
  intro h; rw [h] at this; omega

/-! ### sufficient conditions for `RhsOk` -/

theorem rhsOk_of_no_comma (r : Str) (hne : r ≠ []) (hh : r.head? ≠ some '=') (hc : ',' ∉ r) : RhsOk r = true := by
  rw [rhsOk_iff]
  cases r with
  | nil => exact absurd rfl hne
  | cons c r' =>
    refine ⟨c, r', rfl, by simpa using hh, ?_⟩
    -- the only comma is the final one, followed by nothing
    have : ∀ t : Str, ',' ∉ t → noCommaAssign (t ++ [',']) = true := by
      intro t ht
      induction t with
      | nil => simp [noCommaAssign, assignItem, dropSpaces]
      | cons x t ih =>
        simp only [List.mem_cons, not_or] at ht
        have hx : x ≠ ',' := fun e => ht.1 e.symm
        simp [noCommaAssign, hx, ih ht.2]
    exact this _ hc

theorem rhsOk_of_no_eq (r : Str) (hne : r ≠ []) (he : '=' ∉ r) : RhsOk r = true := by
  rw [rhsOk_iff]
  cases r with
  | nil => exact absurd rfl hne
  | cons c r' =>
    refine ⟨c, r', rfl, ?_, noCommaAssign_of_no_eq _ ?_⟩
    · intro h; exact he (by simp [h])
    · intro h
      rcases List.mem_append.mp h with h | h
      · exact he h
      · simp at h

/-! ### a text made of word characters only (an identifier-like token) -/

theorem basicVarNums_word_token (py : Bool) (pfx : Char) (s : Str) (n : Nat)
    (hw : ∀ c ∈ s, isWordChar c = true) (h : n ∈ basicVarNums py pfx 0 0 s) :
    ∃ ds, s = pfx :: ds ∧ isFieldNum ds = true ∧ digitsToNat ds = n := by
  obtain ⟨pre, ds, post, hs, hds, hn, hb, ha⟩ := basicVarNums_sound_aux py pfx s 0 0 n h
  have hpre : pre = [] := by
    rcases hb with ⟨h, _⟩ | ⟨p, l, hp, hl⟩
    · exact h
    · have := hw l (by rw [hs, hp]; simp)
      rw [hl] at this; cases this
  have hpost : post = [] := by
    rcases ha with h | ⟨_, h⟩ | ⟨c, t, hp, hl⟩
    · exact h
    · have := hw LF (by rw [hs, h]; simp)
      exact absurd this (by decide)
    · have := hw c (by rw [hs, hp]; simp)
      rw [hl] at this; cases this
  exact ⟨ds, by rw [hs, hpre, hpost]; simp, hds, hn⟩

end UpdVars
end Rbql
