/-
  ORDER BY is a stable sort (Part 1) and a stopped loop never looks past the record at which it
  stopped (Part 2).

  Part 1: every comparison function of the value model (`strCmp`, `atomCmp`, `atomsCmp`, `valCmp`,
  `keyCmp`) orients consistently and has a transitive `≠ .gt` (`GoodCmp`), hence `keyLe` is a total
  preorder and the core `List.mergeSort` lemmas apply: the sorted entries are a permutation of the
  input, are non-decreasing in the key, keep ties in input order; DESC is exactly the reverse sequence.

  Part 2: if `mainLoop` ended with `stop = true` after `n - nr` records, whatever follows those records
  is irrelevant (same final state, same count); lifted to `run`; and the streaming bound for
  TOP / LIMIT without ORDER BY / DISTINCT COUNT: the number of records pulled is the least prefix length
  whose emissions exceed the bound (`run_top_stops_within`, `run_top_pulls_at_least`).
  NB "TOP 0 pulls at most one record" is false for the model (and the engine): records that emit nothing
  (WHERE falsy, INNER JOIN without partner, empty UNNEST) are pulled and skipped, and the bound is only
  noticed when a write is refused; see `run_top_zero_stops_at_first_emission`.
-/
import Rbql.Proofs.RunSelect
namespace Rbql

/-! ## Part 1: ORDER BY is a stable sort -/

/-- a comparison function that orients consistently and whose `≠ .gt` is transitive -/
structure GoodCmp {α : Type} (cmp : α → α → Ordering) : Prop where
  swap : ∀ a b, cmp b a = (cmp a b).swap
  le_trans : ∀ a b c, cmp a b ≠ .gt → cmp b c ≠ .gt → cmp a c ≠ .gt

namespace GoodCmp
variable {α : Type} {cmp : α → α → Ordering}

theorem lt_iff_gt (h : GoodCmp cmp) (a b : α) : cmp a b = .lt ↔ cmp b a = .gt := by
  rw [h.swap a b]; cases cmp a b <;> simp [Ordering.swap]

theorem eq_symm (h : GoodCmp cmp) (a b : α) (e : cmp a b = .eq) : cmp b a = .eq := by
  rw [h.swap a b, e]; rfl

theorem total (h : GoodCmp cmp) (a b : α) : cmp a b ≠ .gt ∨ cmp b a ≠ .gt := by
  rw [h.swap a b]; cases cmp a b <;> simp [Ordering.swap]

theorem lt_of_lt_of_le (h : GoodCmp cmp) {a b c : α} (h1 : cmp a b = .lt) (h2 : cmp b c ≠ .gt) :
    cmp a c = .lt := by
  have h3 := h.le_trans a b c (by simp [h1]) h2
  have h4 : cmp c a ≠ .gt → cmp b a ≠ .gt := fun h5 => h.le_trans b c a h2 h5
  have h6 := h.swap a c
  have h7 := h.swap b c
  have h8 := h.swap a b
  rw [h1] at h8
  cases hac : cmp a c <;> cases hbc : cmp b c <;> simp_all [Ordering.swap]

theorem lt_of_le_of_lt (h : GoodCmp cmp) {a b c : α} (h1 : cmp a b ≠ .gt) (h2 : cmp b c = .lt) :
    cmp a c = .lt := by
  have h3 := h.le_trans a b c h1 (by simp [h2])
  have h4 : cmp c a ≠ .gt → cmp c b ≠ .gt := fun h5 => h.le_trans c a b h5 h1
  have h6 := h.swap a c
  have h7 := h.swap b c
  have h8 := h.swap a b
  rw [h2] at h7
  cases hac : cmp a c <;> cases hab : cmp a b <;> simp_all [Ordering.swap]

theorem eq_trans (h : GoodCmp cmp) {a b c : α} (h1 : cmp a b = .eq) (h2 : cmp b c = .eq) :
    cmp a c = .eq := by
  have h3 := h.le_trans a b c (by simp [h1]) (by simp [h2])
  have h4 := h.le_trans c b a (by simp [h.eq_symm _ _ h2]) (by simp [h.eq_symm _ _ h1])
  have h6 := h.swap a c
  cases hac : cmp a c <;> simp_all [Ordering.swap]

end GoodCmp

/-- lexicographic lifting: any `f` satisfying the four defining equations of a lexicographic
comparison over a good `cmp` is good -/
theorem GoodCmp.lex {α : Type} {cmp : α → α → Ordering} (h : GoodCmp cmp)
    (f : List α → List α → Ordering)
    (f1 : f [] [] = .eq) (f2 : ∀ b bs, f [] (b :: bs) = .lt) (f3 : ∀ a as, f (a :: as) [] = .gt)
    (f4 : ∀ a as b bs, f (a :: as) (b :: bs) = (cmp a b).then (f as bs)) : GoodCmp f := by
  constructor
  · intro x
    induction x with
    | nil => intro y; cases y <;> simp [f1, f2, f3, Ordering.swap]
    | cons a as ih =>
      intro y
      cases y with
      | nil => simp [f2, f3, Ordering.swap]
      | cons b bs =>
        rw [f4, f4, ih bs, h.swap a b]
        cases cmp a b <;> simp [Ordering.then, Ordering.swap]
  · intro x
    induction x with
    | nil => intro y z _ _; cases z <;> simp [f1, f2]
    | cons a as ih =>
      intro y z h1 h2
      cases y with
      | nil => simp [f3] at h1
      | cons b bs =>
        cases z with
        | nil => simp [f3] at h2
        | cons c cs =>
          rw [f4] at h1 h2 ⊢
          cases hab : cmp a b with
          | gt => simp [hab, Ordering.then] at h1
          | lt =>
            cases hbc : cmp b c with
            | gt => simp [hbc, Ordering.then] at h2
            | lt => rw [h.lt_of_lt_of_le hab (by simp [hbc])]; simp [Ordering.then]
            | eq => rw [h.lt_of_lt_of_le hab (by simp [hbc])]; simp [Ordering.then]
          | eq =>
            cases hbc : cmp b c with
            | gt => simp [hbc, Ordering.then] at h2
            | lt => rw [h.lt_of_le_of_lt (by simp [hab]) hbc]; simp [Ordering.then]
            | eq =>
              rw [h.eq_trans hab hbc]
              simp only [hab, hbc, Ordering.then] at h1 h2 ⊢
              exact ih bs cs h1 h2

/-- comparison through a `Nat`-valued key -/
theorem GoodCmp.ofNatKey {α : Type} (k : α → Nat) :
    GoodCmp (fun a b => if k a < k b then Ordering.lt else if k b < k a then .gt else .eq) := by
  constructor
  · intro a b
    by_cases h1 : k a < k b <;> by_cases h2 : k b < k a <;> simp [h1, h2, Ordering.swap] <;> omega
  · intro a b c
    by_cases h1 : k a < k b <;> by_cases h2 : k b < k a <;> by_cases h3 : k b < k c <;>
      by_cases h4 : k c < k b <;> by_cases h5 : k a < k c <;> by_cases h6 : k c < k a <;>
      simp [h1, h2, h3, h4, h5, h6] <;> omega

theorem goodCmp_natCompare {α : Type} (k : α → Nat) : GoodCmp (fun a b => compare (k a) (k b)) := by
  have := GoodCmp.ofNatKey k
  simpa only [← Nat.compare_eq_ite_lt] using this

theorem goodCmp_strCmp : GoodCmp strCmp :=
  (GoodCmp.ofNatKey Char.toNat).lex strCmp (by simp [strCmp]) (by simp [strCmp]) (by simp [strCmp])
    (by
      intro a as b bs
      rw [strCmp]
      by_cases h1 : a.toNat < b.toNat <;> by_cases h2 : b.toNat < a.toNat <;>
        simp [h1, h2, Ordering.then])

theorem goodCmp_rat : GoodCmp (fun a b : Rat => if a < b then Ordering.lt else if b < a then .gt else .eq) := by
  constructor
  · intro a b
    by_cases h1 : a < b <;> by_cases h2 : b < a <;> simp [h1, h2, Ordering.swap]
    grind
  · intro a b c
    by_cases h1 : a < b <;> by_cases h2 : b < a <;> by_cases h3 : b < c <;>
      by_cases h4 : c < b <;> by_cases h5 : a < c <;> by_cases h6 : c < a <;>
      simp [h1, h2, h3, h4, h5, h6] <;> grind

theorem goodCmp_atomCmp : GoodCmp atomCmp := by
  have hs := goodCmp_strCmp
  have hr := goodCmp_rat
  have hb := goodCmp_natCompare Bool.toNat
  constructor
  · intro a b
    cases a <;> cases b <;> simp only [atomCmp, Atom.rank] <;>
      first
        | exact hs.swap _ _
        | exact hr.swap _ _
        | exact hb.swap _ _
        | decide
  · intro a b c
    cases a <;> cases b <;> cases c <;> simp only [atomCmp, Atom.rank] <;>
      first
        | exact hs.le_trans _ _ _
        | exact hr.le_trans _ _ _
        | exact hb.le_trans _ _ _
        | (intro h1 h2; revert h1 h2; decide)
        | (intro h1 h2; first | exact absurd rfl h1 | exact absurd rfl h2 | decide)

theorem goodCmp_atomsCmp : GoodCmp atomsCmp :=
  goodCmp_atomCmp.lex atomsCmp (by simp [atomsCmp]) (by simp [atomsCmp]) (by simp [atomsCmp])
    (by intro a as b bs; rw [atomsCmp]; cases atomCmp a b <;> rfl)

theorem goodCmp_valCmp : GoodCmp valCmp := by
  have ha := goodCmp_atomCmp
  have hl := goodCmp_atomsCmp
  constructor
  · intro a b
    cases a <;> cases b <;> simp only [valCmp] <;>
      first
        | exact ha.swap _ _
        | exact hl.swap _ _
        | rfl
  · intro a b c
    cases a <;> cases b <;> cases c <;> simp only [valCmp] <;>
      first
        | exact ha.le_trans _ _ _
        | exact hl.le_trans _ _ _
        | (intro h1 h2; first | exact absurd rfl h1 | exact absurd rfl h2 | decide)

theorem goodCmp_keyCmp : GoodCmp keyCmp :=
  goodCmp_valCmp.lex keyCmp (by simp [keyCmp]) (by simp [keyCmp]) (by simp [keyCmp])
    (by intro a as b bs; rw [keyCmp]; cases valCmp a b <;> rfl)

/-! ### `keyLe` is a total preorder -/

theorem keyLe_total (a b : List Val) : keyLe a b = true ∨ keyLe b a = true := by
  simpa [keyLe] using goodCmp_keyCmp.total a b

theorem keyLe_trans (a b c : List Val) (h1 : keyLe a b = true) (h2 : keyLe b c = true) :
    keyLe a c = true := by
  simp only [keyLe, bne_iff_ne] at h1 h2 ⊢
  exact goodCmp_keyCmp.le_trans a b c h1 h2

theorem keyLe_refl (a : List Val) : keyLe a a = true := by
  rcases keyLe_total a a with h | h <;> exact h

/-- the entry order used by `SortedWriter` / `orderSpec` -/
abbrev entryLe (x y : List Val × Row) : Bool := keyLe x.1 y.1

theorem entryLe_trans (a b c : List Val × Row) : entryLe a b → entryLe b c → entryLe a c :=
  keyLe_trans a.1 b.1 c.1

theorem entryLe_total (a b : List Val × Row) : (entryLe a b || entryLe b a) = true := by
  rcases keyLe_total a.1 b.1 with h | h <;> simp [entryLe, h]

theorem order_perm (es : List (List Val × Row)) :
    (es.mergeSort (fun x y => keyLe x.1 y.1)).Perm es :=
  List.mergeSort_perm es _

theorem order_sorted (es : List (List Val × Row)) :
    (es.mergeSort (fun x y => keyLe x.1 y.1)).Pairwise (fun x y => keyLe x.1 y.1 = true) :=
  List.pairwise_mergeSort entryLe_trans entryLe_total es

theorem order_stable (es : List (List Val × Row)) (x y : List Val × Row)
    (hxy : keyLe x.1 y.1 = true) (h : [x, y].Sublist es) :
    [x, y].Sublist (es.mergeSort (fun x y => keyLe x.1 y.1)) :=
  List.pair_sublist_mergeSort entryLe_trans entryLe_total hxy h

/-- general form of stability: any key-sorted subsequence of the input survives as a subsequence -/
theorem order_stable_sublist (es ys : List (List Val × Row))
    (hs : ys.Pairwise (fun x y => keyLe x.1 y.1 = true)) (h : ys.Sublist es) :
    ys.Sublist (es.mergeSort (fun x y => keyLe x.1 y.1)) :=
  List.sublist_mergeSort entryLe_trans entryLe_total hs h

/-- any class of mutually `≤` entries (in particular: the entries of one key) comes out in input order -/
theorem order_filter_eq (es : List (List Val × Row)) (p : List Val × Row → Bool)
    (hp : ∀ x y, p x = true → p y = true → keyLe x.1 y.1 = true) :
    (es.mergeSort (fun x y => keyLe x.1 y.1)).filter p = es.filter p := by
  have hpw : (es.filter p).Pairwise (fun x y => keyLe x.1 y.1 = true) := by
    rw [List.pairwise_iff_forall_sublist]
    intro a b hab
    have ha : a ∈ es.filter p := hab.subset (by simp)
    have hb : b ∈ es.filter p := hab.subset (by simp)
    exact hp a b (List.mem_filter.1 ha).2 (List.mem_filter.1 hb).2
  have hsub := order_stable_sublist es (es.filter p) hpw List.filter_sublist
  have hsub' := hsub.filter p
  simp only [List.filter_filter, Bool.and_self] at hsub'
  have hlen := ((order_perm es).filter p).length_eq
  exact (hsub'.eq_of_length hlen.symm).symm

/-- ties keep input order: the entries whose key compares equal to `k` appear in the sorted
sequence exactly as they appear in the input -/
theorem order_ties_keep_input_order (es : List (List Val × Row)) (k : List Val) :
    (es.mergeSort (fun x y => keyLe x.1 y.1)).filter (fun e => keyCmp e.1 k == .eq) =
      es.filter (fun e => keyCmp e.1 k == .eq) := by
  apply order_filter_eq
  intro x y hx hy
  simp only [beq_iff_eq] at hx hy
  have := goodCmp_keyCmp.eq_trans hx (goodCmp_keyCmp.eq_symm _ _ hy)
  simp [keyLe, this]

theorem orderSpec_desc_is_reverse (q : SemQuery) (es : List (List Val × Row)) (ho : q.orderBy.isSome) :
    orderSpec { q with desc := true } es = (orderSpec { q with desc := false } es).reverse := by
  cases h : q.orderBy with
  | none => simp [h] at ho
  | some o => simp [orderSpec, List.map_reverse]

theorem orderSpec_none (q : SemQuery) (es : List (List Val × Row)) (ho : q.orderBy = none) :
    orderSpec q es = es.map (·.2) := by
  simp [orderSpec, ho]

theorem orderSpec_some (q : SemQuery) (es : List (List Val × Row)) (ho : q.orderBy.isSome) :
    orderSpec q es =
      ((if q.desc then (es.mergeSort (fun x y => keyLe x.1 y.1)).reverse
        else es.mergeSort (fun x y => keyLe x.1 y.1)).map (·.2)) := by
  cases h : q.orderBy with
  | none => simp [h] at ho
  | some o => simp [orderSpec, h]

/-- ORDER BY (either direction) outputs a permutation of the unsorted result -/
theorem orderSpec_perm (q : SemQuery) (es : List (List Val × Row)) :
    (orderSpec q es).Perm (es.map (·.2)) := by
  unfold orderSpec
  cases q.orderBy with
  | none => exact List.Perm.refl _
  | some o =>
    simp only
    cases q.desc with
    | false => exact (order_perm es).map _
    | true => exact ((List.reverse_perm _).trans (order_perm es)).map _

theorem keyCmp_lt_iff_gt (a b : List Val) : keyCmp a b = .lt ↔ keyCmp b a = .gt :=
  goodCmp_keyCmp.lt_iff_gt a b

theorem keyCmp_eq_symm (a b : List Val) (h : keyCmp a b = .eq) : keyCmp b a = .eq :=
  goodCmp_keyCmp.eq_symm a b h

/-! ## Part 2: a stopped loop never looks past the record at which it stopped -/

/-- the loop ends early only with `stop = true`; the count is bounded by the input -/
theorem mainLoop_count_bounds (q : SemQuery) (jm : JoinMap) (A : Table) (nr : Nat) (st st' : LoopState) (n : Nat)
    (h : mainLoop q jm A nr st = .ok (st', n)) : nr ≤ n ∧ n - nr ≤ A.length := by
  induction A generalizing nr st with
  | nil =>
    rw [mainLoop] at h
    cases h
    simp
  | cons recA rest ih =>
    rw [mainLoop] at h
    split at h
    · cases h; simp
    · cases hs : stepRecord q jm st (nr + 1) recA with
      | error e => rw [hs] at h; cases h
      | ok st1 =>
        rw [hs] at h
        have := ih (nr + 1) st1 h
        simp only [List.length_cons]
        omega

theorem mainLoop_early_stop (q : SemQuery) (jm : JoinMap) (A : Table) (nr : Nat) (st st' : LoopState) (n : Nat)
    (h : mainLoop q jm A nr st = .ok (st', n)) (hlt : n < nr + A.length) : st'.stop = true := by
  induction A generalizing nr st with
  | nil =>
    rw [mainLoop] at h
    cases h
    simp at hlt
  | cons recA rest ih =>
    rw [mainLoop] at h
    split at h
    · cases h; assumption
    · cases hs : stepRecord q jm st (nr + 1) recA with
      | error e => rw [hs] at h; cases h
      | ok st1 =>
        rw [hs] at h
        apply ih (nr + 1) st1 h
        simp only [List.length_cons] at hlt
        omega

theorem mainLoop_tail_irrelevant (q : SemQuery) (jm : JoinMap) (A : Table) (nr : Nat) (st st' : LoopState) (n : Nat)
    (h : mainLoop q jm A nr st = .ok (st', n)) (hstop : st'.stop = true) (ext : Table) :
    mainLoop q jm (A.take (n - nr) ++ ext) nr st = .ok (st', n) := by
  induction A generalizing nr st with
  | nil =>
    rw [mainLoop] at h
    cases h
    simp only [List.take_nil, List.nil_append]
    exact mainLoop_of_stop q jm ext n st' hstop
  | cons recA rest ih =>
    rw [mainLoop] at h
    split at h
    next hst =>
      cases h
      simp only [Nat.sub_self, List.take_zero, List.nil_append]
      exact mainLoop_of_stop q jm ext n st' hstop
    next hst =>
      cases hs : stepRecord q jm st (nr + 1) recA with
      | error e => rw [hs] at h; cases h
      | ok st1 =>
        rw [hs] at h
        have hb := (mainLoop_count_bounds q jm rest (nr + 1) st1 st' n h).1
        have : n - nr = (n - (nr + 1)) + 1 := by omega
        rw [this, List.take_succ_cons, List.cons_append, mainLoop]
        simp only [hst, hs]
        exact ih (nr + 1) st1 h

/-- the join map does not depend on `A`: either `run` fails before the loop for every `A`, or it is
`runWith` for one fixed join map -/
theorem run_cases (q : SemQuery) (B : Table) :
    (∃ e, ∀ A, (run q A B).error = some e) ∨ (∃ jm, ∀ A, run q A B = runWith q A B jm) := by
  by_cases hc : (q.groupBy.isSome && (q.orderBy.isSome || q.isUpdate)) = true
  · left
    refine ⟨.parsing .aggWithOrderDistinct, fun A => ?_⟩
    unfold run
    simp only [hc, if_true]
  · have hc' : (q.groupBy.isSome && (q.orderBy.isSome || q.isUpdate)) = false := by simpa using hc
    cases hj : q.join with
    | none =>
      right
      refine ⟨{}, fun A => ?_⟩
      unfold run runWith
      simp only [hc', hj, Bool.false_eq_true, if_false]
      cases h : mainLoop q {} A 0 { chain := buildChain q {} } with
      | error p => obtain ⟨e, st, n⟩ := p; rfl
      | ok p => obtain ⟨st, n⟩ := p; simp
    | some js =>
      cases hb : JoinMap.build js.rhs B 0 {} with
      | error e =>
        left
        refine ⟨e, fun A => ?_⟩
        unfold run
        simp only [hc', hj, hb, Bool.false_eq_true, if_false, Except.map]
      | ok jm =>
        right
        refine ⟨jm.widen js.nullWidth, fun A => ?_⟩
        unfold run runWith
        simp only [hc', hj, hb, Bool.false_eq_true, if_false, Except.map]
        cases h : mainLoop q (jm.widen js.nullWidth) A 0 { chain := buildChain q {} } with
        | error p => obtain ⟨e, st, n⟩ := p; rfl
        | ok p => obtain ⟨st, n⟩ := p; simp

theorem run_tail_irrelevant' (q : SemQuery) (A B : Table)
    (hstopped : (run q A B).error = none ∧ (run q A B).pulled < A.length) (ext : Table) :
    let n := (run q A B).pulled
    (run q (A.take n ++ ext) B).rows = (run q A B).rows ∧ (run q (A.take n ++ ext) B).pulled = n ∧
      (run q (A.take n ++ ext) B).error = none ∧
      (run q (A.take n ++ ext) B).sink = (run q A B).sink := by
  intro n
  obtain ⟨herr, hlt⟩ := hstopped
  rcases run_cases q B with ⟨e, he⟩ | ⟨jm, hjm⟩
  · rw [he A] at herr; cases herr
  · have hn : n = (run q A B).pulled := rfl
    rw [hjm A] at herr hlt hn
    rw [hjm A, hjm (A.take n ++ ext)]
    unfold runWith at herr hlt hn ⊢
    cases hml : mainLoop q jm A 0 { chain := buildChain q {} } with
    | error p =>
      obtain ⟨e, st, n'⟩ := p
      rw [hml] at herr
      cases herr
    | ok p =>
      obtain ⟨st, n'⟩ := p
      rw [hml] at hlt hn
      simp only at hlt hn
      subst hn
      have hstop := mainLoop_early_stop q jm A 0 _ st n hml (by omega)
      have := mainLoop_tail_irrelevant q jm A 0 _ st n hml hstop ext
      rw [Nat.sub_zero] at this
      rw [this]
      exact ⟨rfl, rfl, rfl, rfl⟩

theorem run_tail_irrelevant (q : SemQuery) (A B : Table) (hg : q.groupBy = none)
    (hjb : ∀ js, q.join = some js → joinBError js.rhs B = none)
    (hstopped : (run q A B).error = none ∧ (run q A B).pulled < A.length) (ext : Table) :
    let n := (run q A B).pulled
    (run q (A.take n ++ ext) B).rows = (run q A B).rows ∧ (run q (A.take n ++ ext) B).pulled = n ∧
      (run q (A.take n ++ ext) B).error = none := by
  intro n
  have _ := hg
  have _ := hjb
  have h := run_tail_irrelevant' q A B hstopped ext
  exact ⟨h.1, h.2.1, h.2.2.1⟩

/-! ### the streaming bound of TOP / LIMIT without ORDER BY -/

/-- the rows a DISTINCT layer lets through (DISTINCT COUNT lets nothing through before `finish`) -/
def passRows : DistState → List Row → List Row
  | .none, rs => rs
  | .uniq seen, rs => foS seen rs
  | .uniqCount _, _ => []

/-- an unsorted chain over a `TopWriter` with room for `m` more records and a user writer that never
refuses: feeding stops (the flag is `false`) exactly when more than `m` records get through DISTINCT -/
theorem feedStop_flag (c : Chain) (hs : c.sorted = none) (hrf : c.sub.sub.sink.refuseFrom = none)
    (m : Nat) (hroom : c.sub.sub.room = some m) (es : List (List Val × Row)) :
    (c.feedStop es).2 = decide ((passRows c.sub.dist (es.map (·.2))).length ≤ m) := by
  induction es generalizing c m with
  | nil => cases hd : c.sub.dist <;> simp [Chain.feedStop, passRows, foS]
  | cons e es ih =>
    obtain ⟨k, r⟩ := e
    obtain ⟨sorted, ⟨dist, t⟩⟩ := c
    simp only at hs hrf hroom
    subst hs
    cases dist with
    | none =>
      simp only [Chain.feedStop, Chain.write, DistLayer.write, List.map_cons, passRows, List.length_cons]
      rcases t.write_spec hrf r with ⟨h0, hw⟩ | ⟨h0, hok, hrf', hrows, hroom'⟩
      · rw [hroom] at h0
        cases h0
        simp [hw]
      · simp only [hok, if_true]
        rw [hroom] at h0 hroom'
        have hm : m ≠ 0 := fun h => h0 (by rw [h])
        rw [ih _ rfl hrf' (m - 1) (by simpa using hroom')]
        simp only [passRows]
        congr 1
        apply propext
        omega
    | uniq seen =>
      simp only [Chain.feedStop, Chain.write, DistLayer.write, List.map_cons, passRows, foS]
      by_cases hr : r ∈ seen
      · simp only [hr, if_true]
        rw [ih _ rfl hrf m hroom]
        rfl
      · simp only [hr, if_false]
        rcases t.write_spec hrf r with ⟨h0, hw⟩ | ⟨h0, hok, hrf', hrows, hroom'⟩
        · rw [hroom] at h0
          cases h0
          simp [hw]
        · simp only [hok, if_true]
          rw [hroom] at h0 hroom'
          have hm : m ≠ 0 := fun h => h0 (by rw [h])
          rw [ih _ rfl hrf' (m - 1) (by simpa using hroom')]
          simp only [passRows, List.length_cons]
          congr 1
          apply propext
          omega
    | uniqCount recs =>
      simp only [Chain.feedStop, Chain.write, DistLayer.write, if_true, passRows]
      rw [ih _ rfl hrf m hroom]
      simp [passRows]

theorem buildChain_flag (q : SemQuery) (hsel : q.isUpdate = false) (ho : q.orderBy = none)
    (hd : q.distinct ≠ .count) (k : Nat) (ht : q.top = some k) (es : List (List Val × Row)) :
    ((buildChain q {}).feedStop es).2 = decide ((dedupSpec q.distinct (es.map (·.2))).length ≤ k) := by
  have hs : (buildChain q {}).sorted = none := by simp [buildChain, hsel, ho]
  have hrf : (buildChain q {}).sub.sub.sink.refuseFrom = none := by rw [buildChain_sink]
  have hroom : (buildChain q {}).sub.sub.room = some k := by
    simp [buildChain, hsel, ht, TopLayer.room]
  rw [feedStop_flag _ hs hrf k hroom]
  have : passRows (buildChain q {}).sub.dist (es.map (·.2)) = dedupSpec q.distinct (es.map (·.2)) := by
    cases hdd : q.distinct with
    | no => simp [buildChain, hsel, hdd, passRows, dedupSpec]
    | yes => simp [buildChain, hsel, hdd, passRows, dedupSpec, foS_nil]
    | count => exact absurd hdd hd
  rw [this]

/-- a prefix that is consumed without raising `stop` can be split off -/
theorem mainLoop_append (q : SemQuery) (jm : JoinMap) (X Y : Table) (nr : Nat) (st st' : LoopState) (n : Nat)
    (h : mainLoop q jm X nr st = .ok (st', n)) (hns : st'.stop = false) :
    mainLoop q jm (X ++ Y) nr st = mainLoop q jm Y n st' := by
  induction X generalizing nr st with
  | nil =>
    rw [mainLoop] at h
    cases h
    rfl
  | cons recA rest ih =>
    rw [mainLoop] at h
    rw [List.cons_append, mainLoop]
    split at h
    next hst => cases h; rw [hst] at hns; cases hns
    next hst =>
      simp only [hst]
      cases hs : stepRecord q jm st (nr + 1) recA with
      | error e => rw [hs] at h; cases h
      | ok st1 =>
        rw [hs] at h
        exact ih (nr + 1) st1 h

/-- an error is reported with the number of the failing record, which is past the start -/
theorem mainLoop_error_count (q : SemQuery) (jm : JoinMap) (A : Table) (nr : Nat) (st st' : LoopState)
    (e : EngErr) (n : Nat) (h : mainLoop q jm A nr st = .error (e, st', n)) : nr < n ∧ n ≤ nr + A.length := by
  induction A generalizing nr st with
  | nil => rw [mainLoop] at h; cases h
  | cons recA rest ih =>
    rw [mainLoop] at h
    split at h
    · cases h
    · cases hs : stepRecord q jm st (nr + 1) recA with
      | error e' => rw [hs] at h; cases h; simp
      | ok st1 =>
        rw [hs] at h
        have := ih (nr + 1) st1 h
        simp only [List.length_cons]
        omega

/-- TOP k (no ORDER BY, no DISTINCT COUNT, no aggregation): as soon as the first `m` records yield more
than `k` output records (distinct ones under DISTINCT), the engine stops within those `m` records —
nothing after them is pulled or evaluated (so an evaluation error there is never raised), and the
result is the specification of the emissions of the prefix. -/
theorem run_top_stops_within (q : SemQuery) (A B : Table) (hsel : q.isUpdate = false) (hagg : q.isAgg = false)
    (ho : q.orderBy = none) (hd : q.distinct ≠ .count) (k : Nat) (ht : q.top = some k)
    (hjb : ∀ js, q.join = some js → joinBError js.rhs B = none)
    (m : Nat) (es : List (List Val × Row)) (hes : emissions q B (A.take m) 0 = .ok es)
    (hk : k < (dedupSpec q.distinct (es.map (·.2))).length) :
    (run q A B).error = none ∧ (run q A B).pulled ≤ m ∧ (run q A B).rows = selectSpec q es := by
  obtain ⟨jm, hrun, hchar⟩ := run_unfold q A B (isAgg_false_groupBy hagg) hjb
  obtain ⟨n, hml, hn⟩ := mainLoop_fed q B jm hsel hagg hchar (A.take m) 0 { chain := buildChain q {} } rfl rfl es hes
  have hstop : (LoopState.fed { chain := buildChain q {} } es).stop = true := by
    simp only [LoopState.fed, Bool.false_or, buildChain_flag q hsel ho hd k ht]
    simpa using hk
  have hnm : n ≤ m := by
    have := List.length_take_le m A
    omega
  have h := mainLoop_tail_irrelevant q jm (A.take m) 0 _ _ n hml hstop (A.drop n)
  rw [Nat.sub_zero, List.take_take, Nat.min_eq_left hnm, List.take_append_drop] at h
  rw [hrun]
  unfold runWith
  rw [h]
  refine ⟨rfl, hnm, ?_⟩
  show ((finishAll _).getSink.rows.reverse = selectSpec q es)
  simp only [finishAll, LoopState.fed]
  exact chain_select_spec q hsel es {} rfl

/-- … and conversely: while the first `m` records yield at most `k` output records, the engine has
not stopped, so it pulls all of them (together with `run_top_stops_within`: the number of records
pulled is the least prefix length whose emissions exceed the bound, or all of `A`). -/
theorem run_top_pulls_at_least (q : SemQuery) (A B : Table) (hsel : q.isUpdate = false) (hagg : q.isAgg = false)
    (ho : q.orderBy = none) (hd : q.distinct ≠ .count) (k : Nat) (ht : q.top = some k)
    (hjb : ∀ js, q.join = some js → joinBError js.rhs B = none)
    (m : Nat) (es : List (List Val × Row)) (hes : emissions q B (A.take m) 0 = .ok es)
    (hk : (dedupSpec q.distinct (es.map (·.2))).length ≤ k) :
    min m A.length ≤ (run q A B).pulled := by
  obtain ⟨jm, hrun, hchar⟩ := run_unfold q A B (isAgg_false_groupBy hagg) hjb
  obtain ⟨n, hml, hn⟩ := mainLoop_fed q B jm hsel hagg hchar (A.take m) 0 { chain := buildChain q {} } rfl rfl es hes
  have hstop : (LoopState.fed { chain := buildChain q {} } es).stop = false := by
    simp only [LoopState.fed, Bool.false_or, buildChain_flag q hsel ho hd k ht]
    simpa using hk
  have hlen : (A.take m).length = min m A.length := List.length_take
  have hge : min m A.length ≤ n := by
    apply Nat.le_of_not_lt
    intro hlt
    have := mainLoop_early_stop q jm (A.take m) 0 _ _ n hml (by omega)
    rw [hstop] at this
    cases this
  have h := mainLoop_append q jm (A.take m) (A.drop m) 0 _ _ n hml hstop
  rw [List.take_append_drop] at h
  rw [hrun]
  unfold runWith
  rw [h]
  cases h2 : mainLoop q jm (A.drop m) n (LoopState.fed { chain := buildChain q {} } es) with
  | error p =>
    obtain ⟨e, st, n'⟩ := p
    have := (mainLoop_error_count q jm _ n _ st e n' h2).1
    show min m A.length ≤ n'
    omega
  | ok p =>
    obtain ⟨st, n'⟩ := p
    have := (mainLoop_count_bounds q jm _ n _ st n' h2).1
    show min m A.length ≤ n'
    omega

/-- TOP 0: the engine stops at the first record that emits anything (it has to pull records until then:
the bound is only noticed when a write is refused) -/
theorem run_top_zero_stops_at_first_emission (q : SemQuery) (A B : Table) (hsel : q.isUpdate = false)
    (hagg : q.isAgg = false) (ho : q.orderBy = none) (hd : q.distinct ≠ .count) (ht : q.top = some 0)
    (hjb : ∀ js, q.join = some js → joinBError js.rhs B = none)
    (m : Nat) (es : List (List Val × Row)) (hes : emissions q B (A.take m) 0 = .ok es) (hne : es ≠ []) :
    (run q A B).error = none ∧ (run q A B).pulled ≤ m ∧ (run q A B).rows = [] := by
  have hk : 0 < (dedupSpec q.distinct (es.map (·.2))).length := by
    cases es with
    | nil => exact absurd rfl hne
    | cons e es =>
      cases hdd : q.distinct with
      | no => simp [dedupSpec]
      | yes => simp [dedupSpec, firstOccurrences]
      | count => exact absurd hdd hd
  have h := run_top_stops_within q A B hsel hagg ho hd 0 ht hjb m es hes hk
  refine ⟨h.1, h.2.1, ?_⟩
  rw [h.2.2]
  simp [selectSpec, truncSpec, ht]

end Rbql
