/-
  Line-level theorem for the JavaScript CSV reader model: whatever the chunking of the decoded
  stream, `process_line` receives exactly the physical lines of the whole text (`linesSpec`), which
  are also the lines of the bulk path.
-/
import Rbql.Model.ReaderJs
namespace Rbql

/-- pieces a streaming decoder can deliver: an empty piece is never directly followed by a piece starting with LF
    (an empty decoded piece means the chunk ended inside a multi-byte character, so the next piece starts with that character) -/
def GoodPieces : List Str → Prop
  | [] => True
  | [_] => True
  | p :: q :: rest => (p = [] → q.head? ≠ some LF) ∧ GoodPieces (q :: rest)

/-! ### Structural equations for `splitLinesJsAux` -/

/-- remove one leading LF -/
def dropLF : Str → Str
  | [] => []
  | c :: t => if c = LF then t else c :: t

/-- remove one leading LF when the flag is set -/
def dropIf (b : Bool) (t : Str) : Str := if b then dropLF t else t

theorem LF_ne_CR : LF ≠ CR := by decide

theorem splitLinesJsAux_ne_nil (s cur : Str) : splitLinesJsAux s cur ≠ [] := by
  fun_induction splitLinesJsAux s cur <;> simp_all <;> grind

theorem splitLinesJsAux_LF (t cur : Str) :
    splitLinesJsAux (LF :: t) cur = cur.reverse :: splitLinesJsAux t [] := by
  cases t <;> simp [splitLinesJsAux]

theorem splitLinesJsAux_CR (t cur : Str) :
    splitLinesJsAux (CR :: t) cur = cur.reverse :: splitLinesJsAux (dropLF t) [] := by
  have h : CR ≠ LF := by decide
  cases t with
  | nil => simp [splitLinesJsAux, dropLF]
  | cons c2 cs =>
    by_cases h2 : c2 = LF <;> simp [splitLinesJsAux, dropLF, h, h2]

theorem splitLinesJsAux_other (c : Char) (t cur : Str) (h1 : c ≠ LF) (h2 : c ≠ CR) :
    splitLinesJsAux (c :: t) cur = splitLinesJsAux t (c :: cur) := by
  cases t <;> simp [splitLinesJsAux, h1, h2]

/-! ### `splitLinesJsAux` on an append -/

/-- the text ends with CR -/
def endsCR (s : Str) : Bool := decide (s.getLast? = some CR)

theorem endsCR_nil : endsCR [] = false := by simp [endsCR]

theorem endsCR_cons (c : Char) (t : Str) (hc : c ≠ CR) : endsCR (c :: t) = endsCR t := by
  cases t with
  | nil => simp [endsCR, hc]
  | cons a b => simp [endsCR, List.getLast?_cons_cons]

theorem endsCR_cons_cons (c a : Char) (t : Str) : endsCR (c :: a :: t) = endsCR (a :: t) := by
  simp [endsCR, List.getLast?_cons_cons]

theorem splitLinesJsAux_append (d : Str) : ∀ (rest cur : Str),
    splitLinesJsAux (d ++ rest) cur =
      (splitLinesJsAux d cur).dropLast ++
        splitLinesJsAux (dropIf (endsCR d) rest)
          ((splitLinesJsAux d cur).getLast?.getD []).reverse := by
  induction hn : d.length using Nat.strongRecOn generalizing d with
  | ind n ih =>
    intro rest cur
    cases d with
    | nil => simp [splitLinesJsAux, dropIf, endsCR]
    | cons c t =>
      have hne := splitLinesJsAux_ne_nil
      by_cases h1 : c = LF
      · subst h1
        simp only [List.cons_append, splitLinesJsAux_LF]
        rw [ih t.length (by simp at hn; omega) t rfl rest []]
        rw [endsCR_cons LF t LF_ne_CR]
        rw [List.dropLast_cons_of_ne_nil (hne _ _), List.getLast?_cons_of_ne_nil (hne _ _)]
        simp
      · by_cases h2 : c = CR
        · subst h2
          simp only [List.cons_append, splitLinesJsAux_CR]
          cases t with
          | nil => simp [dropIf, dropLF, splitLinesJsAux, endsCR]
          | cons c2 t' =>
            by_cases h3 : c2 = LF
            · subst h3
              simp only [List.cons_append, dropLF, if_true]
              rw [ih t'.length (by simp at hn; omega) t' rfl rest []]
              rw [endsCR_cons_cons, endsCR_cons LF t' LF_ne_CR]
              rw [List.dropLast_cons_of_ne_nil (hne _ _), List.getLast?_cons_of_ne_nil (hne _ _)]
              simp
            · simp only [List.cons_append, dropLF, h3, if_false]
              rw [← List.cons_append]
              rw [ih (c2 :: t').length (by simp at hn ⊢; omega) (c2 :: t') rfl rest []]
              rw [endsCR_cons_cons]
              rw [List.dropLast_cons_of_ne_nil (hne _ _), List.getLast?_cons_of_ne_nil (hne _ _)]
              simp
        · simp only [List.cons_append, splitLinesJsAux_other c _ _ h1 h2]
          rw [ih t.length (by simp at hn; omega) t rfl rest (c :: cur)]
          rw [endsCR_cons c t h2]

/-- a non-empty accumulator only prefixes the first piece -/
theorem splitLinesJsAux_acc (d cur : Str) :
    splitLinesJsAux d cur =
      match splitLinesJs d with
      | [] => [cur.reverse]
      | l :: ls => (cur.reverse ++ l) :: ls := by
  have key : ∀ (d cur pre : Str), splitLinesJsAux d (cur ++ pre) =
      match splitLinesJsAux d cur with
      | [] => []
      | l :: ls => (pre.reverse ++ l) :: ls := by
    intro d cur pre
    fun_induction splitLinesJsAux d cur <;> simp_all [splitLinesJsAux]
  have := key d [] cur
  simp only [List.nil_append] at this
  rw [this, splitLinesJs]
  have hne := splitLinesJsAux_ne_nil d []
  cases h : splitLinesJsAux d [] <;> simp_all

theorem splitLinesJsAux_endsCR (d cur : Str) (h : endsCR d = true) :
    (splitLinesJsAux d cur).getLast? = some [] := by
  induction hn : d.length using Nat.strongRecOn generalizing d cur with
  | ind n ih =>
    have hne := splitLinesJsAux_ne_nil
    cases d with
    | nil => simp [endsCR] at h
    | cons c t =>
      by_cases h1 : c = LF
      · subst h1
        rw [endsCR_cons LF t LF_ne_CR] at h
        rw [splitLinesJsAux_LF, List.getLast?_cons_of_ne_nil (hne _ _)]
        exact ih t.length (by simp at hn; omega) t [] h rfl
      · by_cases h2 : c = CR
        · subst h2
          rw [splitLinesJsAux_CR, List.getLast?_cons_of_ne_nil (hne _ _)]
          cases t with
          | nil => simp [dropLF, splitLinesJsAux]
          | cons c2 t' =>
            rw [endsCR_cons_cons] at h
            by_cases h3 : c2 = LF
            · subst h3
              rw [endsCR_cons LF t' LF_ne_CR] at h
              simp only [dropLF, if_true]
              exact ih t'.length (by simp at hn; omega) t' [] h rfl
            · simp only [dropLF, h3, if_false]
              exact ih (c2 :: t').length (by simp at hn ⊢; omega) (c2 :: t') [] h rfl
        · rw [endsCR_cons c t h2] at h
          rw [splitLinesJsAux_other c _ _ h1 h2]
          exact ih t.length (by simp at hn; omega) t (c :: cur) h rfl

/-! ### One chunk -/

theorem jsChunkLines_eq (p : Str) (e : Bool) (d : Str) :
    jsChunkLines p e d =
      (if d.head? = some LF ∧ e = true then ((splitLinesJsAux d p.reverse).dropLast).drop 1
        else (splitLinesJsAux d p.reverse).dropLast,
       (splitLinesJsAux d p.reverse).getLast?.getD [], endsCR d) := by
  rw [splitLinesJsAux_acc d p.reverse]
  simp only [jsChunkLines, endsCR, List.reverse_reverse]
  cases splitLinesJs d <;> simp

theorem dropIf_false (t : Str) : dropIf false t = t := rfl

theorem dropLF_of_head (t : Str) (h : t.head? ≠ some LF) : dropLF t = t := by
  cases t with
  | nil => rfl
  | cons c t => simp at h; simp [dropLF, h]

/-- processing one chunk `d` in front of the remaining text `rest` -/
theorem jsChunkLines_step (p : Str) (e : Bool) (d rest : Str) (hp : e = true → p = [])
    (hd : d = [] → e = true → rest.head? ≠ some LF) :
    splitLinesJsAux (dropIf e (d ++ rest)) p.reverse =
        (jsChunkLines p e d).1 ++
          splitLinesJsAux (dropIf (jsChunkLines p e d).2.2 rest) (jsChunkLines p e d).2.1.reverse
      ∧ ((jsChunkLines p e d).2.2 = true → (jsChunkLines p e d).2.1 = []) := by
  rw [jsChunkLines_eq]
  refine ⟨?_, ?_⟩
  · cases e with
    | false => simp [dropIf_false, splitLinesJsAux_append d rest p.reverse]
    | true =>
      have hp' := hp rfl
      subst hp'
      cases d with
      | nil =>
        have := dropLF_of_head rest (hd rfl rfl)
        simp [dropIf, this, splitLinesJsAux, endsCR]
      | cons c t =>
        have hne := splitLinesJsAux_ne_nil
        by_cases h1 : c = LF
        · subst h1
          simp only [dropIf, if_true, List.cons_append, dropLF, List.head?_cons, and_self,
            splitLinesJsAux_LF, List.reverse_nil, endsCR_cons LF t LF_ne_CR]
          rw [List.dropLast_cons_of_ne_nil (hne _ _), List.getLast?_cons_of_ne_nil (hne _ _)]
          simp only [List.drop_succ_cons, List.drop_zero]
          exact splitLinesJsAux_append t rest []
        · have : dropLF (c :: t ++ rest) = c :: t ++ rest := by simp [dropLF, h1]
          simp only [dropIf, if_true, this]
          simp only [List.head?_cons, Option.some.injEq, h1, false_and, if_false, List.reverse_nil]
          exact splitLinesJsAux_append (c :: t) rest []
  · intro h
    simp only at h
    simp [splitLinesJsAux_endsCR d p.reverse h]

/-! ### All chunks -/

theorem GoodPieces_tail (p : Str) (ps : List Str) (h : GoodPieces (p :: ps)) : GoodPieces ps := by
  cases ps with
  | nil => trivial
  | cons q rest => exact h.2

/-- after an empty piece the remaining text does not start with LF -/
theorem GoodPieces_nil_head (ps : List Str) (h : GoodPieces ([] :: ps)) :
    ps.flatten.head? ≠ some LF := by
  induction ps with
  | nil => simp
  | cons q rest ih =>
    have h1 := h.1 rfl
    cases q with
    | nil => simpa using ih h.2
    | cons c t => simpa using h1

theorem jsStreamLinesAux_spec (ds : List Str) : ∀ (p : Str) (e : Bool), GoodPieces ds →
    (e = true → p = []) →
    (jsStreamLinesAux ds p e).1 ++ [(jsStreamLinesAux ds p e).2.1] =
      splitLinesJsAux (dropIf e ds.flatten) p.reverse := by
  induction ds with
  | nil =>
    intro p e _ _
    cases e <;> simp [jsStreamLinesAux, dropIf, dropLF, splitLinesJsAux]
  | cons d ds ih =>
    intro p e hg hp
    have hd : d = [] → e = true → ds.flatten.head? ≠ some LF := by
      intro h _; subst h; exact GoodPieces_nil_head ds hg
    obtain ⟨h1, h2⟩ := jsChunkLines_step p e d ds.flatten hp hd
    have := ih (jsChunkLines p e d).2.1 (jsChunkLines p e d).2.2 (GoodPieces_tail d ds hg) h2
    simp only [jsStreamLinesAux, List.flatten_cons]
    rw [h1, ← this]
    simp

/-! ### The theorems -/

theorem linesAux_eq_splitLinesJsAux (s cur : Str) :
    linesAux s cur =
      if (splitLinesJsAux s cur).getLast? = some [] then (splitLinesJsAux s cur).dropLast
      else splitLinesJsAux s cur := by
  have hne := splitLinesJsAux_ne_nil
  have hcons : ∀ (x : Str) (L : List Str), L ≠ [] →
      (if (x :: L).getLast? = some [] then (x :: L).dropLast else x :: L) =
        x :: (if L.getLast? = some [] then L.dropLast else L) := by
    intro x L hL
    rw [List.dropLast_cons_of_ne_nil hL, List.getLast?_cons_of_ne_nil hL]
    split <;> rfl
  fun_induction linesAux s cur
  all_goals simp_all [splitLinesJsAux]

theorem jsBulkLines_eq_linesSpec (text : Str) : jsBulkLines text = linesSpec text := by
  simp only [jsBulkLines, linesSpec, splitLinesJs, linesAux_eq_splitLinesJsAux]
  split <;> simp_all

theorem jsStreamLines_eq_linesSpec (pieces : List Str) (h : GoodPieces pieces) :
    jsStreamLines pieces = linesSpec pieces.flatten := by
  rw [← jsBulkLines_eq_linesSpec]
  have := jsStreamLinesAux_spec pieces [] false h (by simp)
  simp only [dropIf_false, List.reverse_nil] at this
  simp only [jsStreamLines, jsBulkLines, splitLinesJs, ← this]
  by_cases hp : (jsStreamLinesAux pieces [] false).2.1 = [] <;> simp [hp]

theorem stream_eq_bulk (c : RCfg) (pieces : List Str) (h : GoodPieces pieces) :
    jsStream c pieces = jsBulk c pieces.flatten := by
  simp only [jsStream, jsBulk, jsStreamLines_eq_linesSpec pieces h, jsBulkLines_eq_linesSpec]

end Rbql
