/-
  Helper lemmas for C03Number: the numeric-string scanners of `Model/Number.lean`.
-/
import Rbql.Model.Engine
namespace Rbql

/-! ### stripping -/

theorem dropWhile_append_of_all {p : Char → Bool} : ∀ (pre x : Str), pre.all p = true → (pre ++ x).dropWhile p = x.dropWhile p
  | [], _, _ => rfl
  | c :: pre, x, h => by
    simp only [List.all_cons, Bool.and_eq_true] at h
    simp only [List.cons_append, List.dropWhile_cons, h.1, if_true]
    exact dropWhile_append_of_all pre x h.2

theorem dropWhile_eq_nil_of_all {p : Char → Bool} (x : Str) (h : x.all p = true) : x.dropWhile p = [] := by
  have := dropWhile_append_of_all (p := p) x [] h
  simpa using this

theorem dropWhile_append_right {p : Char → Bool} : ∀ (s post : Str), post.all p = true →
    (s ++ post).dropWhile p = if s.all p then [] else s.dropWhile p ++ post
  | [], post, h => by simp [dropWhile_eq_nil_of_all post h]
  | c :: s, post, h => by
    cases hc : p c
    · simp [hc]
    · simp only [List.cons_append, List.dropWhile_cons, hc, if_true, List.all_cons, Bool.true_and]
      exact dropWhile_append_right s post h

/-- blanks that satisfy the strip predicate, on either side, do not change what `stripBy` returns -/
theorem stripBy_blanks (p : Char → Bool) (pre s post : Str) (hpre : pre.all p = true) (hpost : post.all p = true) :
    stripBy p (pre ++ s ++ post) = stripBy p s := by
  unfold stripBy
  rw [List.append_assoc, dropWhile_append_of_all pre _ hpre, dropWhile_append_right s post hpost]
  by_cases hs : s.all p = true
  · simp [hs, dropWhile_eq_nil_of_all s hs]
  · simp only [hs, Bool.false_eq_true, if_false, List.reverse_append]
    rw [dropWhile_append_of_all post.reverse _ (by simpa using hpost)]

theorem dropWhile_eq_self_of_head {p : Char → Bool} : ∀ (s : Str), (s.head?.any p) = false → s.dropWhile p = s
  | [], _ => rfl
  | c :: s, h => by
    simp only [List.head?_cons, Option.any_some] at h
    simp [h]

/-- a string whose first and last characters are kept is a fixed point of `stripBy` -/
theorem stripBy_eq_self (p : Char → Bool) (s : Str) (hh : (s.head?.any p) = false) (hl : (s.getLast?.any p) = false) :
    stripBy p s = s := by
  unfold stripBy
  rw [dropWhile_eq_self_of_head s hh, dropWhile_eq_self_of_head s.reverse (by simpa using hl), List.reverse_reverse]

/-- space / TAB / LF / CR -/
def isBlank (c : Char) : Bool := c == ' ' || c == '\t' || c == '\n' || c == '\r'

theorem isBlank_pyNumWs {c : Char} (h : isBlank c = true) : isPyNumWs c = true := by
  simp only [isBlank, Bool.or_eq_true, beq_iff_eq] at h
  rcases h with ((h | h) | h) | h <;> subst h <;> decide

theorem isBlank_jsWs {c : Char} (h : isBlank c = true) : isJsWs c = true := by
  simp only [isBlank, Bool.or_eq_true, beq_iff_eq] at h
  rcases h with ((h | h) | h) | h <;> subst h <;> decide

theorem all_mono {p q : Char → Bool} (hpq : ∀ c, p c = true → q c = true) (l : Str) (h : l.all p = true) : l.all q = true := by
  simp only [List.all_eq_true] at h ⊢
  exact fun c hc => hpq c (h c hc)

theorem pyNumStrip_blanks (pre s post : Str) (hpre : pre.all isBlank = true) (hpost : post.all isBlank = true) :
    pyNumStrip (pre ++ s ++ post) = pyNumStrip s :=
  stripBy_blanks _ pre s post (all_mono (fun _ => isBlank_pyNumWs) pre hpre) (all_mono (fun _ => isBlank_pyNumWs) post hpost)

theorem jsTrim_blanks (pre s post : Str) (hpre : pre.all isBlank = true) (hpost : post.all isBlank = true) :
    jsTrim (pre ++ s ++ post) = jsTrim s :=
  stripBy_blanks _ pre s post (all_mono (fun _ => isBlank_jsWs) pre hpre) (all_mono (fun _ => isBlank_jsWs) post hpost)

/-- `int`, `float` depend on their argument only through `pyNumStrip` -/
theorem pyInt_congr {s t : Str} (h : pyNumStrip s = pyNumStrip t) : pyInt s = pyInt t := by
  unfold pyInt; rw [h]

theorem pyFloat_congr {s t : Str} (h : pyNumStrip s = pyNumStrip t) : pyFloat s = pyFloat t := by
  unfold pyFloat; rw [h]

theorem jsNumber_congr {s t : Str} (h : jsTrim s = jsTrim t) : jsNumber s = jsNumber t := by
  unfold jsNumber; rw [h]

/-! ### digits -/

def digitsVal : Str → Nat := fun ds => ds.foldl (fun a c => a * 10 + digVal c) 0

/-- a non-empty run of ASCII decimal digits (decidable) -/
def AllDigits (ds : Str) : Prop := ds ≠ [] ∧ ds.all numDig = true

instance (ds : Str) : Decidable (AllDigits ds) := by unfold AllDigits; exact inferInstance

theorem scanDigitsTail_cons_dig (us : Bool) (c : Char) (tl : Str) (acc n : Nat) (h : numDig c = true) :
    scanDigitsTail us (c :: tl) acc n = scanDigitsTail us tl (acc * 10 + digVal c) (n + 1) := by
  cases tl with
  | nil => simp [scanDigitsTail, h]
  | cons d ds => simp [scanDigitsTail, h]

theorem scanDigitsTail_stop (us : Bool) (c : Char) (r : Str) (acc n : Nat) (h : numDig c = false) (hu : c ≠ '_') :
    scanDigitsTail us (c :: r) acc n = (acc, n, c :: r) := by
  cases r with
  | nil => simp [scanDigitsTail, h]
  | cons d ds => simp [scanDigitsTail, h, hu]

theorem scanDigitsTail_all (us : Bool) : ∀ (ds : Str) (acc n : Nat), ds.all numDig = true →
    scanDigitsTail us ds acc n = (ds.foldl (fun a c => a * 10 + digVal c) acc, n + ds.length, [])
  | [], acc, n, _ => by simp [scanDigitsTail]
  | c :: ds, acc, n, h => by
    simp only [List.all_cons, Bool.and_eq_true] at h
    rw [scanDigitsTail_cons_dig us c ds acc n h.1, scanDigitsTail_all us ds _ _ h.2]
    simp only [List.foldl_cons, List.length_cons]
    congr 2; omega

theorem scanDigitsTail_all_stop (us : Bool) (c : Char) (r : Str) (hc : numDig c = false) (hu : c ≠ '_') :
    ∀ (ds : Str) (acc n : Nat), ds.all numDig = true →
    scanDigitsTail us (ds ++ c :: r) acc n = (ds.foldl (fun a c => a * 10 + digVal c) acc, n + ds.length, c :: r)
  | [], acc, n, _ => by simp [scanDigitsTail_stop us c r acc n hc hu]
  | d :: ds, acc, n, h => by
    simp only [List.all_cons, Bool.and_eq_true] at h
    rw [List.cons_append, scanDigitsTail_cons_dig us d _ acc n h.1, scanDigitsTail_all_stop us c r hc hu ds _ _ h.2]
    simp only [List.foldl_cons, List.length_cons]
    congr 2; omega

theorem foldl_digits_shift (ds : Str) (a : Nat) :
    ds.foldl (fun a c => a * 10 + digVal c) a = a * 10 ^ ds.length + digitsVal ds := by
  unfold digitsVal
  induction ds generalizing a with
  | nil => simp
  | cons c ds ih =>
    simp only [List.foldl_cons, List.length_cons]
    rw [ih (a * 10 + digVal c), ih (0 * 10 + digVal c), Nat.pow_succ]
    simp only [Nat.zero_mul, Nat.zero_add, Nat.add_mul, Nat.mul_assoc, Nat.add_assoc]
    congr 2
    exact Nat.mul_comm _ _

theorem scanDigits_all (us : Bool) {ds : Str} (h : AllDigits ds) :
    scanDigits us ds = some (digitsVal ds, ds.length, []) := by
  obtain ⟨hne, hall⟩ := h
  cases ds with
  | nil => exact absurd rfl hne
  | cons c ds =>
    simp only [List.all_cons, Bool.and_eq_true] at hall
    simp only [scanDigits, hall.1, if_true, scanDigitsTail_all us ds _ _ hall.2, digitsVal, List.foldl_cons,
      List.length_cons, Nat.zero_mul, Nat.zero_add]
    congr 3; omega

theorem scanDigits_all_stop (us : Bool) {ds : Str} (h : AllDigits ds) (c : Char) (r : Str) (hc : numDig c = false) (hu : c ≠ '_') :
    scanDigits us (ds ++ c :: r) = some (digitsVal ds, ds.length, c :: r) := by
  obtain ⟨hne, hall⟩ := h
  cases ds with
  | nil => exact absurd rfl hne
  | cons d ds =>
    simp only [List.all_cons, Bool.and_eq_true] at hall
    simp only [List.cons_append, scanDigits, hall.1, if_true, scanDigitsTail_all_stop us c r hc hu ds _ _ hall.2, digitsVal,
      List.foldl_cons, List.length_cons, Nat.zero_mul, Nat.zero_add]
    congr 3; omega

/-- a successful `scanDigits` starts at a digit -/
theorem scanDigits_some_head {us : Bool} {t : Str} {r : Nat × Nat × Str} (h : scanDigits us t = some r) :
    ∃ c cs, t = c :: cs ∧ numDig c = true := by
  cases t with
  | nil => simp [scanDigits] at h
  | cons c cs =>
    refine ⟨c, cs, rfl, ?_⟩
    cases hc : numDig c
    · simp [scanDigits, hc] at h
    · rfl

/-! ### words -/

theorem numLower_dig {c : Char} (h : numDig c = true) : numLower c = c := by
  simp only [numDig, decide_eq_true_eq] at h
  unfold numLower
  rw [if_neg (by omega)]

theorem takeSign_dig {c : Char} (cs : Str) (h : numDig c = true) : takeSign (c :: cs) = (false, c :: cs) := by
  have h1 : c ≠ '-' := by rintro rfl; revert h; decide
  have h2 : c ≠ '+' := by rintro rfl; revert h; decide
  unfold takeSign
  split
  · rename_i heq; cases heq; exact absurd rfl h1
  · rename_i heq; cases heq; exact absurd rfl h2
  · rfl

theorem not_word_of_digit_head {c : Char} (cs : Str) (h : numDig c = true) :
    (((c :: cs).map numLower == "inf".toList) || ((c :: cs).map numLower == "infinity".toList) ||
      ((c :: cs).map numLower == "nan".toList)) = false := by
  have hi : c ≠ 'i' := by rintro rfl; revert h; decide
  have hn : c ≠ 'n' := by rintro rfl; revert h; decide
  have e1 : "inf".toList = ['i', 'n', 'f'] := by decide
  have e2 : "infinity".toList = ['i', 'n', 'f', 'i', 'n', 'i', 't', 'y'] := by decide
  have e3 : "nan".toList = ['n', 'a', 'n'] := by decide
  rw [e1, e2, e3]
  simp [numLower_dig h, hi, hn]

theorem not_Infinity_of_digit_head {c : Char} (cs : Str) (h : numDig c = true) :
    ((c :: cs) == "Infinity".toList) = false := by
  have hi : c ≠ 'I' := by rintro rfl; revert h; decide
  have e1 : "Infinity".toList = ['I', 'n', 'f', 'i', 'n', 'i', 't', 'y'] := by decide
  rw [e1]
  simp [hi]

/-- `float` on a string whose stripped, unsigned body starts with a digit: only the decimal scanner matters -/
theorem pyFloat_of_body {s : Str} {c : Char} {cs : Str} (hb : (takeSign (pyNumStrip s)).2 = c :: cs) (hc : numDig c = true) :
    pyFloat s = match scanDecimal true (c :: cs) with
      | some (q, []) => .dec (if (takeSign (pyNumStrip s)).1 then -q else q)
      | _ => .bad := by
  unfold pyFloat
  simp only [hb, not_word_of_digit_head cs hc, Bool.false_eq_true, if_false]
  rfl

/-! ### the decimal scanner on integers and plain decimals -/

theorem scanMantissa_of_int {us : Bool} {t : Str} {v k : Nat} (h : scanDigits us t = some (v, k, [])) :
    scanMantissa us t = some ((v : Rat), []) := by
  unfold scanMantissa; rw [h]

theorem scanDecimal_of_int {us : Bool} {t : Str} {v k : Nat} (h : scanDigits us t = some (v, k, [])) :
    scanDecimal us t = some ((v : Rat), []) := by
  unfold scanDecimal; rw [scanMantissa_of_int h]

theorem scanDigits_dot {us : Bool} (r : Str) : scanDigits us ('.' :: r) = none := by
  simp [scanDigits, show numDig '.' = false by decide]

theorem scanMantissa_of_decimal {us : Bool} {ds fs : Str} (hd : AllDigits ds) (hf : AllDigits fs) :
    scanMantissa us (ds ++ '.' :: fs) =
      some ((digitsVal ds : Rat) + (digitsVal fs : Rat) / ((10 ^ fs.length : Nat) : Rat), []) := by
  unfold scanMantissa
  rw [scanDigits_all_stop us hd '.' fs (by decide) (by decide)]
  simp only [scanDigits_all us hf]

theorem scanDecimal_of_decimal {us : Bool} {ds fs : Str} (hd : AllDigits ds) (hf : AllDigits fs) :
    scanDecimal us (ds ++ '.' :: fs) =
      some ((digitsVal ds : Rat) + (digitsVal fs : Rat) / ((10 ^ fs.length : Nat) : Rat), []) := by
  unfold scanDecimal; rw [scanMantissa_of_decimal hd hf]

/-! ### integer literals are float literals -/

theorem intCast_signed (b : Bool) (v : Nat) :
    (((if b = true then -(v : Int) else (v : Int)) : Int) : Rat) = if b = true then -(v : Rat) else (v : Rat) := by
  cases b <;> simp [Rat.intCast_neg, Rat.intCast_natCast]

theorem pyInt_some_pyFloat {s : Str} {n : Int} (h : pyInt s = some n) : pyFloat s = .dec (n : Rat) := by
  unfold pyInt at h
  simp only at h
  split at h
  · rename_i v k hsd
    obtain ⟨c, cs, hb, hc⟩ := scanDigits_some_head hsd
    rw [pyFloat_of_body hb hc, ← hb, scanDecimal_of_int hsd]
    simp only [Option.some.injEq] at h
    rw [← h, intCast_signed]
  · cases h

/-- `float` never answers with an `int` -/
theorem pyFloat_ne_int (s : Str) (n : Int) : pyFloat s ≠ .int n := by
  unfold pyFloat
  simp only
  split
  · simp
  · split <;> simp

/-! ### the JavaScript branch structure -/

/-- the last branch of `jsNumber`, on the trimmed string -/
def jsDecimalBranch (t : Str) : NumLit :=
  if (takeSign t).2 == "Infinity".toList then .nonFinite
  else
    match scanDecimal false (takeSign t).2 with
    | some (q, []) => .dec (if (takeSign t).1 then -q else q)
    | _ => .bad

/-- when the trimmed string is non-empty and does not start with a radix prefix, `Number` reads a signed decimal -/
theorem jsNumber_eq_decimalBranch {s : Str} (hne : jsTrim s ≠ [])
    (hrad : ∀ x r, jsTrim s = '0' :: x :: r → x ≠ 'x' ∧ x ≠ 'X' ∧ x ≠ 'o' ∧ x ≠ 'O' ∧ x ≠ 'b' ∧ x ≠ 'B') :
    jsNumber s = jsDecimalBranch (jsTrim s) := by
  unfold jsNumber
  simp only
  split
  · rename_i heq; exact absurd heq hne
  · rename_i x r heq
    obtain ⟨h1, h2, h3, h4, h5, h6⟩ := hrad x r heq
    unfold jsDecimalBranch
    rw [heq, takeSign_dig (x :: r) (by decide : numDig '0' = true)]
    have e1 : (x == 'x' || x == 'X') = false := by simp [h1, h2]
    have e2 : (x == 'o' || x == 'O') = false := by simp [h3, h4]
    have e3 : (x == 'b' || x == 'B') = false := by simp [h5, h6]
    simp only [e1, e2, e3, Bool.false_eq_true, if_false,
      not_Infinity_of_digit_head (x :: r) (by decide : numDig '0' = true)]
    rfl
  · rfl

theorem jsDecimalBranch_of_body {t : Str} {c : Char} {cs : Str} (hb : (takeSign t).2 = c :: cs) (hc : numDig c = true) :
    jsDecimalBranch t = match scanDecimal false (c :: cs) with
      | some (q, []) => .dec (if (takeSign t).1 then -q else q)
      | _ => .bad := by
  unfold jsDecimalBranch
  simp only [hb, not_Infinity_of_digit_head cs hc, Bool.false_eq_true, if_false]

/-! ### signs -/

/-- the three admissible sign prefixes -/
def IsSign (sign : Str) : Prop := sign = [] ∨ sign = ['-'] ∨ sign = ['+']

instance (sign : Str) : Decidable (IsSign sign) := by unfold IsSign; exact inferInstance

theorem takeSign_sign_dig {sign : Str} (hs : IsSign sign) {c : Char} (cs : Str) (hc : numDig c = true) :
    takeSign (sign ++ c :: cs) = (decide (sign = ['-']), c :: cs) := by
  rcases hs with rfl | rfl | rfl
  · simpa using takeSign_dig cs hc
  · simp [takeSign]
  · simp [takeSign]

theorem numDig_not_pyNumWs {c : Char} (h : numDig c = true) : isPyNumWs c = false := by
  simp only [numDig, decide_eq_true_eq] at h
  simp only [isPyNumWs, Bool.or_eq_false_iff, decide_eq_false_iff_not, Bool.and_eq_false_iff]
  omega

theorem numDig_not_jsWs {c : Char} (h : numDig c = true) : isJsWs c = false := by
  simp only [numDig, decide_eq_true_eq] at h
  simp only [isJsWs, decide_eq_false_iff_not]
  omega

/-! ### signed plain literals -/

theorem getLast?_digits_any {p : Char → Bool} (hp : ∀ c, numDig c = true → p c = false) (x : Str) {fs : Str} (hf : AllDigits fs) :
    ((x ++ fs).getLast?.any p) = false := by
  obtain ⟨hne, hall⟩ := hf
  rw [List.getLast?_append, List.getLast?_eq_some_getLast hne]
  simp only [Option.some_or, Option.any_some]
  exact hp _ (List.all_eq_true.mp hall _ (List.getLast_mem hne))

theorem stripBy_signed {p : Char → Bool} (hm : p '-' = false) (hpl : p '+' = false) {sign : Str} (hs : IsSign sign)
    {c : Char} {cs : Str} (hc : p c = false) (hl : ((c :: cs).getLast?.any p) = false) :
    stripBy p (sign ++ c :: cs) = sign ++ c :: cs := by
  apply stripBy_eq_self
  · rcases hs with rfl | rfl | rfl <;> simp [hc, hm, hpl]
  · rw [List.getLast?_append, List.getLast?_eq_some_getLast (List.cons_ne_nil c cs)]
    rw [List.getLast?_eq_some_getLast (List.cons_ne_nil c cs)] at hl
    simpa using hl

theorem pyInt_signed {sign : Str} (hs : IsSign sign) {c : Char} {cs : Str} (hc : numDig c = true)
    (hl : ((c :: cs).getLast?.any isPyNumWs) = false) {v k : Nat} (hv : scanDigits true (c :: cs) = some (v, k, [])) :
    pyInt (sign ++ c :: cs) = some (if sign = ['-'] then -(v : Int) else (v : Int)) := by
  unfold pyInt
  simp only [pyNumStrip, stripBy_signed (by decide) (by decide) hs (numDig_not_pyNumWs hc) hl, takeSign_sign_dig hs cs hc, hv,
    decide_eq_true_eq]

theorem pyFloat_signed {sign : Str} (hs : IsSign sign) {c : Char} {cs : Str} (hc : numDig c = true)
    (hl : ((c :: cs).getLast?.any isPyNumWs) = false) {q : Rat} (hv : scanDecimal true (c :: cs) = some (q, [])) :
    pyFloat (sign ++ c :: cs) = .dec (if sign = ['-'] then -q else q) := by
  have hstrip : pyNumStrip (sign ++ c :: cs) = sign ++ c :: cs :=
    stripBy_signed (by decide) (by decide) hs (numDig_not_pyNumWs hc) hl
  have hb : (takeSign (pyNumStrip (sign ++ c :: cs))).2 = c :: cs := by rw [hstrip, takeSign_sign_dig hs cs hc]
  rw [pyFloat_of_body hb hc, hv, hstrip, takeSign_sign_dig hs cs hc]
  simp only [decide_eq_true_eq]

theorem not_radix_letter {x : Char} (h : numDig x = true ∨ x = '.') :
    x ≠ 'x' ∧ x ≠ 'X' ∧ x ≠ 'o' ∧ x ≠ 'O' ∧ x ≠ 'b' ∧ x ≠ 'B' := by
  rcases h with h | rfl
  · refine ⟨?_, ?_, ?_, ?_, ?_, ?_⟩ <;> (rintro rfl; revert h; decide)
  · decide

theorem jsNumber_signed {sign : Str} (hs : IsSign sign) {c : Char} {cs : Str} (hc : numDig c = true)
    (hmem : ∀ y ∈ cs, numDig y = true ∨ y = '.')
    (hl : ((c :: cs).getLast?.any isJsWs) = false) {q : Rat} (hv : scanDecimal false (c :: cs) = some (q, [])) :
    jsNumber (sign ++ c :: cs) = .dec (if sign = ['-'] then -q else q) := by
  have hstrip : jsTrim (sign ++ c :: cs) = sign ++ c :: cs :=
    stripBy_signed (by decide) (by decide) hs (numDig_not_jsWs hc) hl
  have hb : (takeSign (jsTrim (sign ++ c :: cs))).2 = c :: cs := by rw [hstrip, takeSign_sign_dig hs cs hc]
  rw [jsNumber_eq_decimalBranch, jsDecimalBranch_of_body hb hc, hv, hstrip, takeSign_sign_dig hs cs hc]
  · simp only [decide_eq_true_eq]
  · rw [hstrip]; rcases hs with rfl | rfl | rfl <;> simp
  · intro x r heq
    rw [hstrip] at heq
    apply not_radix_letter
    rcases hs with rfl | rfl | rfl
    · simp only [List.nil_append, List.cons.injEq] at heq
      exact hmem x (by rw [heq.2]; exact List.mem_cons_self)
    · simp at heq
    · simp at heq

theorem AllDigits.cons_form {ds : Str} (h : AllDigits ds) : ∃ c cs, ds = c :: cs ∧ numDig c = true ∧ cs.all numDig = true := by
  obtain ⟨hne, hall⟩ := h
  cases ds with
  | nil => exact absurd rfl hne
  | cons c cs =>
    simp only [List.all_cons, Bool.and_eq_true] at hall
    exact ⟨c, cs, rfl, hall.1, hall.2⟩

end Rbql
