/-
  Invariance properties of the shallow query parser model:
  (1) keyword search depends on the text only through its ASCII-lower-cased form,
  (2) `cleanupQuery` ignores blank/comment lines, indentation and trailing semicolons,
  (3) string literals are put back verbatim (when the marker text does not occur in the query).
-/
import Rbql.Model.Parse
import Rbql.Theorems.C06
namespace Rbql

/-! ## (1) keyword case -/

theorem ciPrefix_map (f : Char → Char) (hf : ∀ c, lowerChar (f c) = lowerChar c) (k s : Str) :
    ciPrefix k (s.map f) = ciPrefix k s := by
  induction k generalizing s with
  | nil => simp [ciPrefix]
  | cons a k ih =>
    cases s with
    | nil => simp [ciPrefix]
    | cons c cs => simp [ciPrefix, hf, ih]

theorem dropSpaces_map (f : Char → Char) (hsp : ∀ c, f c = ' ' ↔ c = ' ') (s : Str) :
    dropSpaces (s.map f) = (dropSpaces s).map f := by
  unfold dropSpaces
  induction s with
  | nil => rfl
  | cons c cs ih =>
    by_cases h : c = ' '
    · have h2 : f c = ' ' := (hsp c).mpr h
      subst h
      simp only [List.map_cons, List.dropWhile_cons, h2, beq_self_eq_true, if_true]
      exact ih
    · have h2 : ¬ f c = ' ' := fun e => h ((hsp c).mp e)
      simp [h, h2]

theorem matchWords_map (f : Char → Char) (hf : ∀ c, lowerChar (f c) = lowerChar c)
    (hsp : ∀ c, f c = ' ' ↔ c = ' ') (words : List Str) (s : Str) :
    matchWords words (s.map f) = (matchWords words s).map (List.map f) := by
  induction words generalizing s with
  | nil => simp [matchWords]
  | cons w ws ih =>
    cases ws with
    | nil =>
      simp only [matchWords, ciPrefix_map f hf]
      split <;> simp [List.map_drop]
    | cons w2 ws =>
      simp only [matchWords, ciPrefix_map f hf]
      split
      · rw [← List.map_drop, dropSpaces_map f hsp, ih]
      · rfl

theorem head?_map_space (f : Char → Char) (hsp : ∀ c, f c = ' ' ↔ c = ' ') (s : Str) :
    ((s.map f).head? = some ' ') ↔ (s.head? = some ' ') := by
  cases s with
  | nil => simp
  | cons c cs => simp [hsp]

/-- the local `tryAt` of `kwMatchAt` -/
def tryAtM (words : List Str) (start kwAt : Nat) (t : Str) : Option (Nat × Nat) :=
  match matchWords words t with
  | some rest => if rest.head? = some ' ' then some (start, kwAt + (t.length - rest.length)) else none
  | none => none

theorem kwMatchAt_eq (words : List Str) (pos : Nat) (b : Bool) (s : Str) :
    kwMatchAt words pos b s =
      match (if b then tryAtM words pos pos s else none) with
      | some m => some m
      | none => match s with
        | ' ' :: t => tryAtM words pos (pos + 1) t
        | _ => none := by
  rfl

theorem tryAtM_map (f : Char → Char) (hf : ∀ c, lowerChar (f c) = lowerChar c)
    (hsp : ∀ c, f c = ' ' ↔ c = ' ') (words : List Str) (start kwAt : Nat) (t : Str) :
    tryAtM words start kwAt (t.map f) = tryAtM words start kwAt t := by
  unfold tryAtM
  rw [matchWords_map f hf hsp]
  cases matchWords words t with
  | none => rfl
  | some rest => simp only [Option.map_some, head?_map_space f hsp, List.length_map]

theorem kwMatchAt_map (f : Char → Char) (hf : ∀ c, lowerChar (f c) = lowerChar c)
    (hsp : ∀ c, f c = ' ' ↔ c = ' ') (words : List Str) (pos : Nat) (b : Bool) (s : Str) :
    kwMatchAt words pos b (s.map f) = kwMatchAt words pos b s := by
  rw [kwMatchAt_eq, kwMatchAt_eq, tryAtM_map f hf hsp]
  cases s with
  | nil => rfl
  | cons c cs =>
    by_cases h : c = ' '
    · subst h
      have h2 : f ' ' = ' ' := (hsp ' ').mpr rfl
      simp only [List.map_cons, h2, tryAtM_map f hf hsp]
    · have h2 : ¬ f c = ' ' := fun e => h ((hsp c).mp e)
      simp only [List.map_cons]
      split
      · rfl
      · split
        · rename_i heq; simp at heq; exact absurd heq.1 h2
        · split
          · rename_i heq; simp at heq; exact absurd heq.1 h
          · rfl

theorem kwMatches_map (f : Char → Char) (hf : ∀ c, lowerChar (f c) = lowerChar c)
    (hsp : ∀ c, f c = ' ' ↔ c = ' ') (words : List Str) (fuel pos : Nat) (s : Str) :
    kwMatches words fuel pos (s.map f) = kwMatches words fuel pos s := by
  induction fuel generalizing pos s with
  | zero => simp [kwMatches]
  | succ n ih =>
    cases s with
    | nil => simp [kwMatches]
    | cons c cs =>
      have hk := kwMatchAt_map f hf hsp words pos (pos == 0) (c :: cs)
      simp only [List.map_cons] at hk
      simp only [List.map_cons, kwMatches, hk]
      cases kwMatchAt words pos (pos == 0) (c :: cs) with
      | none => exact ih _ _
      | some p =>
        obtain ⟨st, en⟩ := p
        simp only
        split
        · have : List.drop (en - pos) (f c :: List.map f cs) = ((c :: cs).drop (en - pos)).map f := by
            rw [List.map_drop]; rfl
          rw [this, ih]
        · rw [ih]

theorem locateGroup_map (f : Char → Char) (hf : ∀ c, lowerChar (f c) = lowerChar c)
    (hsp : ∀ c, f c = ' ' ↔ c = ' ') (s : Str) (g : List Stmt) :
    locateGroup (s.map f) g = locateGroup s g := by
  induction g with
  | nil => rfl
  | cons st rest ih =>
    simp only [locateGroup, List.length_map, kwMatches_map f hf hsp, ih]

/-- the statements found (and their positions) depend on the text only through its lower-cased form -/
theorem locateStatements_case_invariant (f : Char → Char) (hf : ∀ c, lowerChar (f c) = lowerChar c)
    (hsp : ∀ c, f c = ' ' ↔ c = ' ') (s : Str) : locateStatements (s.map f) = locateStatements s := by
  unfold locateStatements
  have : locateGroup (s.map f) = locateGroup s := funext (locateGroup_map f hf hsp s)
  rw [this]

/-- ASCII upper-casing -/
def upperChar (c : Char) : Char := if 'a' ≤ c ∧ c ≤ 'z' then Char.ofNat (c.toNat - 32) else c

theorem toNat_ofNat_small (n : Nat) (h : n < 0xd800) : (Char.ofNat n).toNat = n := by
  have : n.isValidChar := Or.inl h
  simp [Char.ofNat, this, Char.toNat, Char.ofNatAux]

theorem char_le_iff (a b : Char) : a ≤ b ↔ a.toNat ≤ b.toNat :=
  Iff.trans Char.le_def UInt32.le_iff_toNat_le

theorem lowerChar_upperChar (c : Char) : lowerChar (upperChar c) = lowerChar c := by
  unfold lowerChar upperChar
  simp only [char_le_iff]
  have ha : 'a'.toNat = 97 := rfl
  have hz : 'z'.toNat = 122 := rfl
  have hA : 'A'.toNat = 65 := rfl
  have hZ : 'Z'.toNat = 90 := rfl
  simp only [ha, hz, hA, hZ]
  by_cases h : 97 ≤ c.toNat ∧ c.toNat ≤ 122
  · have e1 : (Char.ofNat (c.toNat - 32)).toNat = c.toNat - 32 := toNat_ofNat_small _ (by omega)
    have h3 : ¬ (65 ≤ c.toNat ∧ c.toNat ≤ 90) := by omega
    have h4 : 65 ≤ c.toNat - 32 ∧ c.toNat - 32 ≤ 90 := by omega
    rw [if_pos h, e1, if_pos h4, if_neg h3]
    have : c.toNat - 32 + 32 = c.toNat := by omega
    rw [this]
    simp
  · rw [if_neg h]

theorem upperChar_space (c : Char) : upperChar c = ' ' ↔ c = ' ' := by
  unfold upperChar
  simp only [char_le_iff]
  have ha : 'a'.toNat = 97 := rfl
  have hz : 'z'.toNat = 122 := rfl
  simp only [ha, hz]
  by_cases h : 97 ≤ c.toNat ∧ c.toNat ≤ 122
  · rw [if_pos h]
    have e1 : (Char.ofNat (c.toNat - 32)).toNat = c.toNat - 32 := toNat_ofNat_small _ (by omega)
    constructor
    · intro e
      have := congrArg Char.toNat e
      rw [e1] at this
      have hs : ' '.toNat = 32 := rfl
      omega
    · intro e; subst e; simp at h
  · rw [if_neg h]

/-- upper-casing the whole query text does not change the statements found -/
example (s : Str) : locateStatements (s.map upperChar) = locateStatements s :=
  locateStatements_case_invariant upperChar lowerChar_upperChar upperChar_space s

/-- and neither does lower-casing it -/
theorem lowerChar_idem (c : Char) : lowerChar (lowerChar c) = lowerChar c := by
  unfold lowerChar
  simp only [char_le_iff]
  have hA : 'A'.toNat = 65 := rfl
  have hZ : 'Z'.toNat = 90 := rfl
  simp only [hA, hZ]
  by_cases h : 65 ≤ c.toNat ∧ c.toNat ≤ 90
  · have e1 : (Char.ofNat (c.toNat + 32)).toNat = c.toNat + 32 := toNat_ofNat_small _ (by omega)
    have h3 : ¬ (65 ≤ c.toNat + 32 ∧ c.toNat + 32 ≤ 90) := by omega
    rw [if_pos h, e1, if_neg h3]
  · rw [if_neg h, if_neg h]

theorem lowerChar_space (c : Char) : lowerChar c = ' ' ↔ c = ' ' := by
  unfold lowerChar
  simp only [char_le_iff]
  have hA : 'A'.toNat = 65 := rfl
  have hZ : 'Z'.toNat = 90 := rfl
  simp only [hA, hZ]
  by_cases h : 65 ≤ c.toNat ∧ c.toNat ≤ 90
  · rw [if_pos h]
    have e1 : (Char.ofNat (c.toNat + 32)).toNat = c.toNat + 32 := toNat_ofNat_small _ (by omega)
    constructor
    · intro e
      have := congrArg Char.toNat e
      rw [e1] at this
      have hs : ' '.toNat = 32 := rfl
      omega
    · intro e; subst e; simp at h
  · rw [if_neg h]

theorem locateStatements_lowercase (s : Str) : locateStatements (s.map lowerChar) = locateStatements s :=
  locateStatements_case_invariant lowerChar lowerChar_idem lowerChar_space s

/-! ## (2) layout -/

/-- lines joined by LF -/
def joinLines : List Str → Str
  | [] => []
  | [l] => l
  | l :: ls => l ++ LF :: joinLines ls

theorem findD_LF_noLF (l : Str) (h : LF ∉ l) : findD [LF] l = (l, none) := by
  induction l with
  | nil => rfl
  | cons c cs ih =>
    have hc : ¬ LF = c := fun e => h (by simp [e])
    have := ih (fun hm => h (by simp [hm]))
    simp [findD, List.isPrefixOf, hc, this]

theorem findD_LF_append (l r : Str) (h : LF ∉ l) : findD [LF] (l ++ LF :: r) = (l, some r) := by
  induction l with
  | nil => simp [findD, List.isPrefixOf]
  | cons c cs ih =>
    have hc : ¬ LF = c := fun e => h (by simp [e])
    have := ih (fun hm => h (by simp [hm]))
    simp [findD, List.isPrefixOf, hc, this]

theorem splitOn_joinLines (ls : List Str) (hne : ls ≠ []) (h : ∀ l ∈ ls, LF ∉ l) :
    splitOn [LF] (joinLines ls) = ls := by
  induction ls with
  | nil => exact absurd rfl hne
  | cons l rest ih =>
    cases rest with
    | nil =>
      simp only [joinLines]
      exact splitOn_none [LF] l l (findD_LF_noLF l (h l (by simp)))
    | cons l2 rest =>
      simp only [joinLines]
      rw [splitOn_some [LF] _ l _ (by simp) (findD_LF_append l _ (h l (by simp)))]
      rw [ih (by simp) (fun x hx => h x (by simp [hx]))]

/-- Python's `str.strip()` white space -/
def isPyWs (c : Char) : Bool := c = ' ' || c = '\t' || c = LF || c = CR || c = Char.ofNat 11 || c = Char.ofNat 12

theorem pyStrip_eq (s : Str) : pyStrip s = ((s.dropWhile isPyWs).reverse.dropWhile isPyWs).reverse := rfl

/-- the part of `cleanupQuery` after the split -/
def cleanLines (ls : List Str) : Str :=
  let lines := ls.map pyStrip
  let lines := lines.map (fun l => if l.head? == some '#' then [] else l)
  let lines := lines.filter (fun l => l ≠ [])
  ((joinSpace lines).reverse.dropWhile (· == ';')).reverse

theorem cleanupQuery_eq (q : Str) : cleanupQuery q = cleanLines (splitOn [LF] q) := rfl

theorem cleanupQuery_joinLines (ls : List Str) (hne : ls ≠ []) (h : ∀ l ∈ ls, LF ∉ l) :
    cleanupQuery (joinLines ls) = cleanLines ls := by
  rw [cleanupQuery_eq, splitOn_joinLines ls hne h]

theorem cleanup_ignores_blank_and_comment_lines (l1 l2 : List Str) (c : Str) (hl : ∀ l ∈ l1 ++ l2, LF ∉ l) (hc : LF ∉ c)
    (hskip : pyStrip c = [] ∨ (pyStrip c).head? = some '#') (hne : l1 ++ l2 ≠ []) :
    cleanupQuery (joinLines (l1 ++ [c] ++ l2)) = cleanupQuery (joinLines (l1 ++ l2)) := by
  rw [cleanupQuery_joinLines _ hne hl, cleanupQuery_joinLines _ (by simp)]
  · unfold cleanLines
    have : (if (pyStrip c).head? = some '#' then [] else pyStrip c) = [] := by
      rcases hskip with h | h
      · simp [h]
      · simp [h]
    simp [List.filter_append, this]
  · intro l hm
    simp only [List.mem_append, List.mem_singleton] at hm hl
    rcases hm with (hm | rfl) | hm
    · exact hl l (Or.inl hm)
    · exact hc
    · exact hl l (Or.inr hm)

theorem pyStrip_indent (ind l : Str) (hsp : ∀ ch ∈ ind, ch = ' ' ∨ ch = '\t') : pyStrip (ind ++ l) = pyStrip l := by
  rw [pyStrip_eq, pyStrip_eq]
  have : (ind ++ l).dropWhile isPyWs = l.dropWhile isPyWs := by
    induction ind with
    | nil => rfl
    | cons a as ih =>
      have ha : isPyWs a = true := by
        rcases hsp a (by simp) with rfl | rfl <;> decide
      simp only [List.cons_append, List.dropWhile_cons, ha, if_true]
      exact ih (fun ch hch => hsp ch (by simp [hch]))
  rw [this]

theorem cleanup_ignores_indentation (ls : List Str) (hne : ls ≠ []) (h : ∀ l ∈ ls, LF ∉ l) (ind : List Str) (hind : ind.length = ls.length)
    (hsp : ∀ i ∈ ind, ∀ ch ∈ i, ch = ' ' ∨ ch = '\t') :
    cleanupQuery (joinLines (List.zipWith (· ++ ·) ind ls)) = cleanupQuery (joinLines ls) := by
  have hmap : ∀ (ind ls : List Str), (∀ i ∈ ind, ∀ ch ∈ i, ch = ' ' ∨ ch = '\t') →
      (List.zipWith (· ++ ·) ind ls).map pyStrip = (ls.take ind.length).map pyStrip := by
    intro ind
    induction ind with
    | nil => intro ls _; simp
    | cons i is ih =>
      intro ls hsp
      cases ls with
      | nil => simp
      | cons l ls =>
        simp only [List.zipWith_cons_cons, List.map_cons, List.length_cons, List.take_succ_cons]
        rw [pyStrip_indent i l (hsp i (by simp)), ih ls (fun j hj => hsp j (by simp [hj]))]
  have hnoLF : ∀ l ∈ List.zipWith (· ++ ·) ind ls, LF ∉ l := by
    intro l hl
    rw [List.mem_iff_getElem] at hl
    obtain ⟨n, hn, rfl⟩ := hl
    simp only [List.getElem_zipWith, List.mem_append, not_or]
    simp only [List.length_zipWith] at hn
    constructor
    · intro hm
      rcases hsp _ (List.getElem_mem (by omega)) _ hm with e | e <;> exact absurd e (by decide)
    · exact h _ (List.getElem_mem (by omega))
  have hne2 : List.zipWith (· ++ ·) ind ls ≠ [] := by
    intro e
    have := congrArg List.length e
    simp only [List.length_zipWith, List.length_nil] at this
    have : ls.length = 0 := by omega
    exact hne (List.eq_nil_of_length_eq_zero this)
  rw [cleanupQuery_joinLines _ hne2 hnoLF, cleanupQuery_joinLines _ hne h]
  unfold cleanLines
  rw [hmap ind ls hsp, hind, List.take_length]

/-- strip the characters satisfying `p` at the end -/
def rstripP (p : Char → Bool) (x : Str) : Str := (x.reverse.dropWhile p).reverse

theorem rstripP_of_last (p : Char → Bool) (x : Str) (c : Char) (hl : x.getLast? = some c) (hc : p c = false) :
    rstripP p x = x := by
  unfold rstripP
  rw [← List.head?_reverse] at hl
  cases hr : x.reverse with
  | nil => rw [hr] at hl; simp at hl
  | cons a r =>
    rw [hr] at hl
    simp only [List.head?_cons, Option.some.injEq] at hl
    subst hl
    rw [List.dropWhile_cons, hc]
    simp only [Bool.false_eq_true, if_false]
    rw [← hr, List.reverse_reverse]

theorem rstripP_cons (p : Char → Bool) (a : Char) (x : Str) (ha : p a = false) :
    ∃ y, rstripP p (a :: x) = a :: y := by
  unfold rstripP
  rw [List.reverse_cons, List.dropWhile_append]
  split
  · exact ⟨[], by simp [ha]⟩
  · exact ⟨(x.reverse.dropWhile p).reverse, by simp⟩

theorem rstripP_semi_replicate (t : Str) (n : Nat) :
    rstripP (· == ';') (t ++ List.replicate n ';') = rstripP (· == ';') t := by
  induction n with
  | zero => simp
  | succ n ih =>
    rw [List.replicate_succ', ← List.append_assoc]
    unfold rstripP at ih ⊢
    rw [List.reverse_append]
    simp only [List.reverse_cons, List.reverse_nil, List.nil_append, List.cons_append, List.dropWhile_cons,
      beq_self_eq_true, if_true]
    exact ih

theorem dropWhile_cons_of_ne_nil (p : Char → Bool) (q : Str) (h : q.dropWhile p ≠ []) :
    ∃ a t, q.dropWhile p = a :: t ∧ p a = false := by
  cases hd : q.dropWhile p with
  | nil => exact absurd hd h
  | cons a t =>
    have := List.head?_dropWhile_not p q
    rw [hd] at this
    exact ⟨a, t, rfl, by simpa using this⟩

theorem getLast?_dropWhile (p : Char → Bool) (q : Str) (h : q.dropWhile p ≠ []) :
    (q.dropWhile p).getLast? = q.getLast? := by
  have e : q.getLast? = (q.takeWhile p ++ q.dropWhile p).getLast? := by rw [List.takeWhile_append_dropWhile]
  rw [e, List.getLast?_append]
  cases hd : (q.dropWhile p).getLast? with
  | none => exact absurd (List.getLast?_eq_none_iff.mp hd) h
  | some c => rfl

theorem cleanLines_single (x : Str) :
    cleanLines [x] = if pyStrip x = [] ∨ (pyStrip x).head? = some '#' then [] else rstripP (· == ';') (pyStrip x) := by
  unfold cleanLines rstripP
  by_cases h1 : pyStrip x = []
  · simp [h1, joinSpace]
  · by_cases h2 : (pyStrip x).head? = some '#'
    · simp [h2, joinSpace]
    · simp [h1, h2, joinSpace]

theorem replicate_semi_noLF (n : Nat) : LF ∉ List.replicate n ';' := by
  intro h
  have := List.eq_of_mem_replicate h
  exact absurd this (by decide)

/-- `cleanupQuery (q ++ ";;;") = cleanupQuery q` does NOT hold in general: `cleanupQuery "a ;" = "a "` but
`cleanupQuery "a " = "a"` (the line is stripped BEFORE the semicolons are removed, and nothing is stripped after).
It holds when `q` has no trailing white space (or in the degenerate cases: no semicolon added, blank line, comment line). -/
theorem cleanup_ignores_trailing_semicolons (q : Str) (n : Nat) (hq : LF ∉ q)
    (hend : n = 0 ∨ pyStrip q = [] ∨ (pyStrip q).head? = some '#' ∨ (∀ c, q.getLast? = some c → isPyWs c = false)) :
    cleanupQuery (q ++ List.replicate n ';') = cleanupQuery q := by
  cases n with
  | zero => simp
  | succ m =>
  have hS : LF ∉ q ++ List.replicate (m + 1) ';' := by
    simp only [List.mem_append, not_or]; exact ⟨hq, replicate_semi_noLF _⟩
  rw [cleanupQuery_eq, cleanupQuery_eq, splitOn_none _ _ _ (findD_LF_noLF _ hS), splitOn_none _ _ _ (findD_LF_noLF _ hq),
    cleanLines_single, cleanLines_single]
  have hSlast : (List.replicate (m + 1) ';').getLast? = some ';' := by
    rw [List.replicate_succ']; simp
  have hSstrip : rstripP isPyWs (List.replicate (m + 1) ';') = List.replicate (m + 1) ';' :=
    rstripP_of_last _ _ ';' hSlast (by decide)
  have hSl : (List.replicate (m + 1) ';').dropWhile isPyWs = List.replicate (m + 1) ';' := by
    rw [List.replicate_succ, List.dropWhile_cons]; rfl
  by_cases ht : q.dropWhile isPyWs = []
  · -- blank line
    have e1 : pyStrip q = [] := by rw [pyStrip_eq, ht]; rfl
    have e2 : pyStrip (q ++ List.replicate (m + 1) ';') = List.replicate (m + 1) ';' := by
      rw [pyStrip_eq, List.dropWhile_append, ht]
      simp only [List.isEmpty_nil, if_true]
      rw [hSl]; exact hSstrip
    rw [e1, e2]
    have := rstripP_semi_replicate [] (m + 1)
    simp only [List.nil_append] at this
    rw [this]
    simp [rstripP, List.replicate_succ]
  · obtain ⟨a, t, hat, ha⟩ := dropWhile_cons_of_ne_nil isPyWs q ht
    have e2 : pyStrip (q ++ List.replicate (m + 1) ';') = a :: t ++ List.replicate (m + 1) ';' := by
      rw [pyStrip_eq, List.dropWhile_append, hat]
      simp only [List.isEmpty_cons, Bool.false_eq_true, if_false]
      apply rstripP_of_last isPyWs _ ';' _ (by decide)
      rw [List.getLast?_append, hSlast]; rfl
    obtain ⟨y, hy⟩ := rstripP_cons isPyWs a t ha
    have e1 : pyStrip q = a :: y := by rw [pyStrip_eq, hat]; exact hy
    rw [e1, e2]
    simp only [List.cons_append, List.head?_cons, reduceCtorEq, false_or, Option.some.injEq]
    by_cases hh : a = '#'
    · simp [hh]
    · simp only [hh, if_false]
      have := rstripP_semi_replicate (a :: t) (m + 1)
      simp only [List.cons_append] at this
      rw [this]
      rcases hend with h | h | h | h
      · cases h
      · rw [e1] at h; cases h
      · rw [e1] at h; simp at h; exact absurd h hh
      · have hl := getLast?_dropWhile isPyWs q ht
        rw [hat] at hl
        cases hg : q.getLast? with
        | none => rw [hg] at hl; simp at hl
        | some c =>
          have hc := h c hg
          rw [hg] at hl
          have : rstripP isPyWs (a :: t) = a :: t := rstripP_of_last _ _ c hl hc
          rw [hy] at this
          rw [this]

theorem rstripP_length_le (p : Char → Bool) (x : Str) : (rstripP p x).length ≤ x.length := by
  unfold rstripP
  rw [List.length_reverse]
  have := (List.dropWhile_sublist p (l := x.reverse)).length_le
  simpa using this

theorem rstripP_length_lt (p : Char → Bool) (x : Str) (c : Char) (hl : x.getLast? = some c) (hc : p c = true) :
    (rstripP p x).length < x.length := by
  unfold rstripP
  rw [← List.head?_reverse] at hl
  rw [List.length_reverse]
  cases hr : x.reverse with
  | nil => rw [hr] at hl; simp at hl
  | cons a r =>
    rw [hr] at hl
    simp only [List.head?_cons, Option.some.injEq] at hl
    subst hl
    rw [List.dropWhile_cons, hc]
    simp only [if_true]
    have h1 := (List.dropWhile_sublist p (l := r)).length_le
    have h2 : x.length = (a :: r).length := by rw [← hr, List.length_reverse]
    rw [h2, List.length_cons]; omega

/-- the hypothesis of `cleanup_ignores_trailing_semicolons` is the weakest possible: when it fails (a semicolon is
added to a non-blank, non-comment line that ends with white space) the cleaned-up query DOES change -/
theorem cleanup_trailing_semicolons_hyp_needed (q : Str) (n : Nat) (hq : LF ∉ q) (hn : n ≠ 0)
    (h1 : pyStrip q ≠ []) (h2 : (pyStrip q).head? ≠ some '#') (c : Char) (hl : q.getLast? = some c)
    (hc : isPyWs c = true) :
    cleanupQuery (q ++ List.replicate n ';') ≠ cleanupQuery q := by
  cases n with
  | zero => exact absurd rfl hn
  | succ m =>
  have hS : LF ∉ q ++ List.replicate (m + 1) ';' := by
    simp only [List.mem_append, not_or]; exact ⟨hq, replicate_semi_noLF _⟩
  rw [cleanupQuery_eq, cleanupQuery_eq, splitOn_none _ _ _ (findD_LF_noLF _ hS), splitOn_none _ _ _ (findD_LF_noLF _ hq),
    cleanLines_single, cleanLines_single]
  have hSlast : (List.replicate (m + 1) ';').getLast? = some ';' := by
    rw [List.replicate_succ']; simp
  have ht : q.dropWhile isPyWs ≠ [] := by
    intro ht
    apply h1
    rw [pyStrip_eq, ht]; rfl
  obtain ⟨a, t, hat, ha⟩ := dropWhile_cons_of_ne_nil isPyWs q ht
  have e2 : pyStrip (q ++ List.replicate (m + 1) ';') = a :: t ++ List.replicate (m + 1) ';' := by
    rw [pyStrip_eq, List.dropWhile_append, hat]
    simp only [List.isEmpty_cons, Bool.false_eq_true, if_false]
    apply rstripP_of_last isPyWs _ ';' _ (by decide)
    rw [List.getLast?_append, hSlast]; rfl
  obtain ⟨y, hy⟩ := rstripP_cons isPyWs a t ha
  have e1 : pyStrip q = a :: y := by rw [pyStrip_eq, hat]; exact hy
  have hh : a ≠ '#' := by
    intro e; apply h2; rw [e1, e]; rfl
  rw [e1, e2]
  simp only [List.cons_append, List.head?_cons, reduceCtorEq, false_or, Option.some.injEq, hh, if_false]
  have := rstripP_semi_replicate (a :: t) (m + 1)
  simp only [List.cons_append] at this
  rw [this]
  have hlast : (a :: t).getLast? = some c := by
    have := getLast?_dropWhile isPyWs q ht
    rw [hat] at this
    rw [this, hl]
  have hcs : (c == ';') = false := by
    cases hcc : (c == ';') with
    | false => rfl
    | true =>
      have : c = ';' := by simpa using hcc
      subst this
      exact absurd hc (by decide)
  rw [rstripP_of_last _ _ c hlast hcs]
  intro e
  have e' := congrArg List.length e
  have l1 := rstripP_length_le (· == ';') (a :: y)
  have l2 := rstripP_length_lt isPyWs (a :: t) c hlast hc
  rw [hy] at l2
  omega

/-- the concrete counterexample to the unconditional statement -/
theorem cleanup_trailing_semicolon_counterexample :
    cleanupQuery ("select a1 ".toList ++ List.replicate 1 ';') = "select a1 ".toList ∧
    cleanupQuery "select a1 ".toList = "select a1".toList := by
  decide +kernel

/-! ## (3) string literals are put back verbatim -/

theorem literalBody_suffix (d : Str) (fuel : Nat) (s : Str) (prev : Bool) (rest : Str)
    (h : literalBody d fuel s prev = some rest) : ∃ pre, s = pre ++ rest := by
  induction fuel generalizing s prev with
  | zero => simp [literalBody] at h
  | succ n ih =>
    rw [literalBody.eq_def] at h
    simp only at h
    split at h
    · simp only [Option.some.injEq] at h
      exact ⟨s.take d.length, by rw [← h, List.take_append_drop]⟩
    · cases s with
      | nil => simp at h
      | cons c cs =>
        simp only at h
        split at h
        · obtain ⟨pre, hp⟩ := ih _ _ h
          exact ⟨(c :: cs).take (bsRun (c :: cs) + d.length) ++ pre, by
            rw [List.append_assoc, ← hp, List.take_append_drop]⟩
        · split at h
          · cases h
          · obtain ⟨pre, hp⟩ := ih _ _ h
            exact ⟨c :: pre, by rw [hp]; rfl⟩

theorem matchLiteral_split (s lit rest : Str) (h : matchLiteral s = some (lit, rest)) :
    s = lit ++ rest ∧ lit ≠ [] := by
  unfold matchLiteral at h
  obtain ⟨d, hd, hdd⟩ := List.exists_of_findSome?_eq_some h
  have hdne : d ≠ [] := by
    simp only [DELIMS, List.mem_cons, List.not_mem_nil, or_false] at hd
    rcases hd with rfl | rfl | rfl | rfl <;> simp
  split at hdd
  · rename_i hp
    cases hb : literalBody d (s.length + 1) (s.drop d.length) false with
    | none => rw [hb] at hdd; simp at hdd
    | some r =>
      rw [hb] at hdd
      simp only [Option.map_some, Option.some.injEq, Prod.mk.injEq] at hdd
      obtain ⟨h1, h2⟩ := hdd
      subst h2
      obtain ⟨pre, hpre⟩ := literalBody_suffix _ _ _ _ _ hb
      obtain ⟨t, ht⟩ := List.isPrefixOf_iff_prefix.mp hp
      have hs : s = (d ++ pre) ++ r := by
        rw [← ht, List.drop_left] at hpre
        rw [← ht, hpre, List.append_assoc]
      have hl : s.length - r.length = (d ++ pre).length := by
        rw [hs]; simp only [List.length_append]; omega
      rw [hl] at h1
      have : lit = d ++ pre := by rw [← h1, hs, List.take_left]
      subst this
      refine ⟨hs, ?_⟩
      intro e
      have := congrArg List.length e
      simp only [List.length_append, List.length_nil] at this
      have : d.length = 0 := by omega
      exact hdne (List.eq_nil_of_length_eq_zero this)
  · cases hdd

/-- `part₀ lit₀ part₁ lit₁ … partₙ` -/
def reassemble : List Str → List Str → Str
  | [], _ => []
  | p :: _, [] => p
  | p :: ps, l :: ls => p ++ l ++ reassemble ps ls

theorem separateAux_acc (fuel : Nat) (s cur : Str) (parts lits : List Str) :
    separateAux fuel s cur parts lits =
      (parts.reverse ++ (separateAux fuel s cur [] []).1, lits.reverse ++ (separateAux fuel s cur [] []).2) := by
  induction fuel generalizing s cur parts lits with
  | zero => simp [separateAux]
  | succ n ih =>
    cases s with
    | nil => simp [separateAux]
    | cons c cs =>
      simp only [separateAux]
      cases hm : matchLiteral (c :: cs) with
      | none => simp only; exact ih _ _ _ _
      | some p =>
        obtain ⟨lit, rest⟩ := p
        simp only
        rw [ih rest [] (cur.reverse :: parts) (lit :: lits), ih rest [] [cur.reverse] [lit]]
        simp

theorem separateAux_spec (fuel : Nat) (s cur : Str) (hf : s.length < fuel) :
    (separateAux fuel s cur [] []).1.length = (separateAux fuel s cur [] []).2.length + 1 ∧
    reassemble (separateAux fuel s cur [] []).1 (separateAux fuel s cur [] []).2 = cur.reverse ++ s := by
  induction fuel generalizing s cur with
  | zero => omega
  | succ n ih =>
    cases s with
    | nil => simp [separateAux, reassemble]
    | cons c cs =>
      simp only [separateAux]
      cases hm : matchLiteral (c :: cs) with
      | none =>
        simp only
        have := ih cs (c :: cur) (by simp only [List.length_cons] at hf; omega)
        simpa using this
      | some p =>
        obtain ⟨lit, rest⟩ := p
        simp only
        obtain ⟨hs, hne⟩ := matchLiteral_split _ _ _ hm
        have hlen : rest.length < n := by
          have := congrArg List.length hs
          simp only [List.length_append] at this
          have : 0 < lit.length := List.length_pos_iff.mpr hne
          omega
        rw [separateAux_acc]
        obtain ⟨h1, h2⟩ := ih rest [] hlen
        constructor
        · simp [h1]
        · simp only [List.reverse_cons, List.reverse_nil, List.nil_append, List.singleton_append]
          cases hr : (separateAux n rest [] [] []).1 with
          | nil => rw [hr] at h1; simp at h1
          | cons p0 ps0 =>
            rw [hr] at h2
            simp only [reassemble]
            simp only [List.reverse_nil, List.nil_append] at h2
            rw [h2, hs, List.append_assoc]

theorem separateAux_shape (s : Str) :
    (separateAux (s.length + 1) s [] [] []).1.length = (separateAux (s.length + 1) s [] [] []).2.length + 1 :=
  (separateAux_spec (s.length + 1) s [] (Nat.lt_succ_self _)).1

theorem separateAux_reassemble (s : Str) :
    reassemble (separateAux (s.length + 1) s [] [] []).1 (separateAux (s.length + 1) s [] [] []).2 = s := by
  have := (separateAux_spec (s.length + 1) s [] (Nat.lt_succ_self _)).2
  simpa using this

/-! ### occurrences -/

/-- `d` occurs in `s` -/
def Occ (d s : Str) : Prop := ∃ x y, s = x ++ d ++ y

theorem occursIn_iff (d s : Str) : occursIn d s = true ↔ Occ d s := by
  induction s with
  | nil =>
    simp only [occursIn, List.isEmpty_iff]
    constructor
    · rintro rfl; exact ⟨[], [], rfl⟩
    · rintro ⟨x, y, h⟩
      have := congrArg List.length h
      simp only [List.length_nil, List.length_append] at this
      exact List.eq_nil_of_length_eq_zero (by omega)
  | cons c cs ih =>
    simp only [occursIn, Bool.or_eq_true, ih]
    constructor
    · rintro (h | ⟨x, y, h⟩)
      · obtain ⟨t, ht⟩ := List.isPrefixOf_iff_prefix.mp h
        exact ⟨[], t, by simp [ht]⟩
      · exact ⟨c :: x, y, by simp [h]⟩
    · rintro ⟨x, y, h⟩
      cases x with
      | nil => left; exact List.isPrefixOf_iff_prefix.mpr ⟨y, by simp [h]⟩
      | cons a x' =>
        right
        simp only [List.cons_append, List.cons.injEq] at h
        exact ⟨x', y, h.2⟩

theorem Occ.trans {a b c : Str} (h1 : Occ a b) (h2 : Occ b c) : Occ a c := by
  obtain ⟨x, y, rfl⟩ := h1
  obtain ⟨x', y', rfl⟩ := h2
  exact ⟨x' ++ x, y ++ y', by simp⟩

theorem occ_of_prefix (d t s : Str) (h : Occ (d ++ t) s) : Occ d s := by
  obtain ⟨x, y, rfl⟩ := h
  exact ⟨x, t ++ y, by simp⟩

theorem occ_append_left (d a b : Str) (h : Occ d a) : Occ d (a ++ b) := by
  obtain ⟨x, y, rfl⟩ := h
  exact ⟨x, y ++ b, by simp⟩

theorem occ_append_right (d a b : Str) (h : Occ d b) : Occ d (a ++ b) := by
  obtain ⟨x, y, rfl⟩ := h
  exact ⟨a ++ x, y, by simp⟩

/-- an occurrence of `d` in `A ++ R` starts inside `A` -/
def StartsIn (d A R : Str) : Prop := ∃ A1 A2, A = A1 ++ A2 ∧ A2 ≠ [] ∧ d <+: A2 ++ R

theorem occ_append (d A R : Str) (h : Occ d (A ++ R)) : StartsIn d A R ∨ Occ d R := by
  obtain ⟨x, y, h⟩ := h
  rw [List.append_assoc] at h
  rcases List.append_eq_append_iff.mp h with ⟨as, h1, h2⟩ | ⟨bs, h1, h2⟩
  · right; exact ⟨as, y, by rw [h2]; simp⟩
  · by_cases hb : bs = []
    · subst hb
      right; exact ⟨[], y, by simpa using h2.symm⟩
    · left; exact ⟨x, bs, h1, hb, ⟨y, h2⟩⟩

theorem startsIn_append (d A A' R : Str) (h : StartsIn d (A ++ A') R) :
    StartsIn d A (A' ++ R) ∨ StartsIn d A' R := by
  obtain ⟨A1, A2, h, hne, hp⟩ := h
  rcases List.append_eq_append_iff.mp h with ⟨as, h1, h2⟩ | ⟨bs, h1, h2⟩
  · right; exact ⟨as, A2, h2, hne, hp⟩
  · by_cases hb : bs = []
    · subst hb
      right; exact ⟨[], A2, by simpa using h2.symm, hne, hp⟩
    · left
      refine ⟨A1, bs, h1, hb, ?_⟩
      rw [← List.append_assoc, ← h2]; exact hp

theorem startsIn_assoc (d A A' R : Str) (h : StartsIn d A (A' ++ R)) : StartsIn d (A ++ A') R := by
  obtain ⟨A1, A2, h, hne, hp⟩ := h
  refine ⟨A1, A2 ++ A', by rw [h]; simp, by simp [hne], ?_⟩
  rw [List.append_assoc]; exact hp

theorem startsIn_occ (d A R : Str) (h : StartsIn d A R) : Occ d (A ++ R) := by
  obtain ⟨A1, A2, h, _, ⟨t, ht⟩⟩ := h
  exact ⟨A1, t, by rw [h, List.append_assoc, ← ht]; simp⟩

theorem startsIn_of_prefix (d t A R : Str) (h : StartsIn (d ++ t) A R) : StartsIn d A R := by
  obtain ⟨A1, A2, h, hne, hp⟩ := h
  exact ⟨A1, A2, h, hne, (List.prefix_append d t).trans hp⟩

/-! ### `replaceAll` -/

theorem replaceAll_noOcc (old new : Str) (fuel : Nat) (s : Str) (h : ¬ Occ old s) :
    replaceAll old new fuel s = s := by
  induction fuel generalizing s with
  | zero => simp [replaceAll]
  | succ n ih =>
    cases s with
    | nil => simp [replaceAll]
    | cons c cs =>
      have hnp : ¬ old.isPrefixOf (c :: cs) = true := by
        intro hp
        obtain ⟨t, ht⟩ := List.isPrefixOf_iff_prefix.mp hp
        exact h ⟨[], t, by simp [ht]⟩
      have hcs : ¬ Occ old cs := by
        rintro ⟨x, y, hxy⟩
        exact h ⟨c :: x, y, by simp [hxy]⟩
      simp [replaceAll, hnp, ih cs hcs]

/-- the only occurrence is replaced -/
theorem replaceAll_unique (old new A B : Str) (hold : old ≠ []) (hA : ¬ StartsIn old A (old ++ B))
    (hB : ¬ Occ old B) (fuel : Nat) (hf : (A ++ old ++ B).length < fuel) :
    replaceAll old new fuel (A ++ old ++ B) = A ++ new ++ B := by
  induction A generalizing fuel with
  | nil =>
    cases fuel with
    | zero => omega
    | succ n =>
      cases old with
      | nil => exact absurd rfl hold
      | cons o os =>
        have hp : (o :: os).isPrefixOf (o :: (os ++ B)) = true :=
          List.isPrefixOf_iff_prefix.mpr ⟨B, by simp⟩
        have hd : List.drop (o :: os).length (o :: (os ++ B)) = B := by
          have : o :: (os ++ B) = (o :: os) ++ B := rfl
          rw [this, List.drop_left]
        simp only [List.nil_append, List.cons_append, replaceAll, hp, true_and, ne_eq, reduceCtorEq,
          not_false_eq_true, if_true]
        rw [hd, replaceAll_noOcc _ _ _ _ hB]
  | cons a A' ih =>
    cases fuel with
    | zero => omega
    | succ n =>
      have hnp : ¬ old.isPrefixOf (a :: (A' ++ old ++ B)) = true := by
        intro hp
        apply hA
        refine ⟨[], a :: A', rfl, by simp, ?_⟩
        have := List.isPrefixOf_iff_prefix.mp hp
        simpa using this
      have hA' : ¬ StartsIn old A' (old ++ B) := by
        rintro ⟨A1, A2, h, hne, hp⟩
        exact hA ⟨a :: A1, A2, by rw [h]; rfl, hne, hp⟩
      have := ih hA' n (by simp only [List.cons_append, List.length_cons] at hf; omega)
      rw [List.cons_append, List.cons_append, replaceAll, if_neg (fun hh => hnp hh.1), this]
      rfl


/-! ### the marker text -/

def MARKER : Str := "___RBQL_STRING_LITERAL".toList
def US : Str := "___".toList

/-- the marker text does not occur in the query -/
def NoMarker (s : Str) : Prop := ¬ occursIn "___RBQL_STRING_LITERAL".toList s

theorem noMarker_iff (s : Str) : NoMarker s ↔ ¬ Occ MARKER s := by
  unfold NoMarker
  rw [← occursIn_iff]; rfl

def digits (k : Nat) : Str := (toString k).toList

theorem placeholder_eq (k : Nat) : placeholder k = MARKER ++ (digits k ++ US) := by
  unfold placeholder MARKER digits US
  rw [List.append_assoc]

theorem digits_eq (k : Nat) : digits k = Nat.toDigits 10 k := by
  unfold digits
  rw [Nat.toString_eq_repr, Nat.toList_repr]

theorem digits_no_us (k : Nat) : '_' ∉ digits k := by
  rw [digits_eq]; exact Nat.underscore_not_in_toDigits

theorem digits_inj (k j : Nat) (h : digits k = digits j) : k = j := by
  rw [digits_eq, digits_eq] at h
  have e1 := @Nat.ofDigitChars_ten_toDigits k
  have e2 := @Nat.ofDigitChars_ten_toDigits j
  rw [h] at e1
  exact e1.symm.trans e2

theorem marker_length : MARKER.length = 22 := by decide

theorem marker_noBorder : ∀ o, o < 22 → 0 < o → (MARKER.drop o).isPrefixOf MARKER = false := by decide

theorem marker_nb (u v : Str) (h : MARKER = u ++ v) (hu : u ≠ []) (hv : v ≠ []) : ¬ v <+: MARKER := by
  intro hp
  have hl := congrArg List.length h
  rw [marker_length, List.length_append] at hl
  have h1 : 0 < u.length := List.length_pos_iff.mpr hu
  have h2 : 0 < v.length := List.length_pos_iff.mpr hv
  have hd : MARKER.drop u.length = v := by rw [h, List.drop_left]
  have := marker_noBorder u.length (by omega) h1
  rw [hd] at this
  rw [← List.isPrefixOf_iff_prefix, this] at hp
  cases hp

/-- an occurrence of the marker cannot start strictly before another one and overlap it -/
theorem no_startsIn_marker (A X : Str) (h : ¬ Occ MARKER A) : ¬ StartsIn MARKER A (MARKER ++ X) := by
  rintro ⟨A1, A2, hA, hne, hp⟩
  by_cases hl : MARKER.length ≤ A2.length
  · have : MARKER <+: A2 := List.prefix_of_prefix_length_le hp (List.prefix_append _ _) hl
    obtain ⟨t, ht⟩ := this
    exact h ⟨A1, t, by rw [hA, ← ht]; simp⟩
  · have : A2 <+: MARKER := List.prefix_of_prefix_length_le (List.prefix_append _ _) hp (by omega)
    obtain ⟨t, ht⟩ := this
    have htne : t ≠ [] := by
      rintro rfl
      simp only [List.append_nil] at ht
      rw [ht] at hl; omega
    have hp' : A2 ++ t <+: A2 ++ (MARKER ++ X) := by rw [ht]; exact hp
    rw [List.prefix_append_right_inj] at hp'
    have hp2 : t <+: MARKER := by
      apply List.prefix_of_prefix_length_le hp' (List.prefix_append _ _)
      rw [← ht]; simp
    exact marker_nb A2 t ht.symm hne htne hp2

theorem us_prefix_eq (a b x y : Str) (ha : '_' ∉ a) (hb : '_' ∉ b) (h : a ++ '_' :: x <+: b ++ '_' :: y) : a = b := by
  induction a generalizing b with
  | nil =>
    cases b with
    | nil => rfl
    | cons c b' =>
      simp only [List.nil_append, List.cons_append, List.cons_prefix_cons] at h
      exact (hb (by rw [← h.1]; simp)).elim
  | cons c a' ih =>
    cases b with
    | nil =>
      simp only [List.nil_append, List.cons_append, List.cons_prefix_cons] at h
      exact (ha (by rw [h.1]; simp)).elim
    | cons c' b' =>
      simp only [List.cons_append, List.cons_prefix_cons] at h
      rw [h.1, ih b' (fun hm => ha (by simp [hm])) (fun hm => hb (by simp [hm])) h.2]

/-- no occurrence of placeholder `k` starts inside placeholder `j ≠ k`, except possibly in its closing `___` -/
theorem no_startsIn_placeholder (k j : Nat) (hkj : k ≠ j) (R : Str)
    (h : StartsIn (placeholder k) (placeholder j) R) : StartsIn MARKER US R := by
  rw [placeholder_eq j] at h
  rcases startsIn_append _ _ _ _ h with h | h
  · -- starts inside the marker
    exfalso
    obtain ⟨A1, A2, hA, hne, hp⟩ := h
    by_cases h1 : A1 = []
    · subst h1
      simp only [List.nil_append] at hA
      subst hA
      rw [placeholder_eq k, List.append_assoc, List.prefix_append_right_inj] at hp
      have hus : US = '_' :: "__".toList := rfl
      rw [hus] at hp
      rw [List.cons_append] at hp
      exact hkj (digits_inj k j (us_prefix_eq _ _ _ _ (digits_no_us k) (digits_no_us j) hp))
    · have hm : MARKER <+: A2 ++ (digits j ++ US ++ R) := by
        rw [placeholder_eq k] at hp
        exact (List.prefix_append _ _).trans hp
      have hl : A2.length ≤ MARKER.length := by rw [hA]; simp
      have : A2 <+: MARKER := List.prefix_of_prefix_length_le (List.prefix_append _ _) hm hl
      exact marker_nb A1 A2 hA h1 hne this
  · rcases startsIn_append _ _ _ _ h with h | h
    · -- starts inside the digits
      exfalso
      obtain ⟨A1, A2, hA, hne, hp⟩ := h
      cases A2 with
      | nil => exact hne rfl
      | cons a A2' =>
        have ha : a ∈ digits j := by rw [hA]; simp
        have hmk : placeholder k = '_' :: ("__RBQL_STRING_LITERAL".toList ++ (digits k ++ US)) := by
          rw [placeholder_eq]; rfl
        rw [hmk, List.cons_append, List.cons_prefix_cons] at hp
        rw [← hp.1] at ha
        exact digits_no_us j ha
    · rw [placeholder_eq k] at h
      exact startsIn_of_prefix _ _ _ _ h


/-! ### putting the literals back -/

theorem marker_ne_nil : MARKER ≠ [] := by decide

theorem placeholder_ne_nil (k : Nat) : placeholder k ≠ [] := by
  rw [placeholder_eq]
  intro h
  exact marker_ne_nil (List.append_eq_nil_iff.mp h).1

theorem not_occ_marker_nil : ¬ Occ MARKER [] := by
  rintro ⟨x, y, h⟩
  have := congrArg List.length h
  simp only [List.length_nil, List.length_append, marker_length] at this
  omega

/-- a format part that does not complete the closing `___` of the preceding placeholder to a marker -/
def PartOk (p : Str) : Prop := ¬ Occ MARKER (US ++ p)

theorem PartOk.noMarker {p : Str} (h : PartOk p) : ¬ Occ MARKER p :=
  fun h' => h (occ_append_right _ _ _ h')

theorem interleave_cons_cons (p q : Str) (qs : List Str) (j : Nat) :
    interleaveParts (p :: q :: qs) j = p ++ (placeholder j ++ interleaveParts (q :: qs) (j + 1)) := by
  simp [interleaveParts]

theorem interleave_head (p : Str) (ps : List Str) (j : Nat) :
    interleaveParts (p :: ps) j = p ∨ ∃ X, interleaveParts (p :: ps) j = p ++ (MARKER ++ X) := by
  cases ps with
  | nil => left; rfl
  | cons q qs =>
    right
    exact ⟨digits j ++ US ++ interleaveParts (q :: qs) (j + 1), by
      rw [interleave_cons_cons, placeholder_eq]; simp⟩

theorem no_marker_from_us (p : Str) (ps : List Str) (j : Nat) (hp : PartOk p) :
    ¬ StartsIn MARKER US (interleaveParts (p :: ps) j) := by
  rcases interleave_head p ps j with e | ⟨X, e⟩ <;> rw [e]
  · intro h; exact hp (startsIn_occ _ _ _ h)
  · intro h; exact no_startsIn_marker (US ++ p) X hp (startsIn_assoc _ _ _ _ h)

/-- placeholder `k` does not occur in the part of the format expression built from later placeholders -/
theorem no_placeholder_in_interleave (k : Nat) (ps : List Str) :
    ∀ (j : Nat), k < j → (∀ p ∈ ps, PartOk p) → ¬ Occ (placeholder k) (interleaveParts ps j) := by
  induction ps with
  | nil =>
    intro j _ _ h
    rw [placeholder_eq] at h
    exact not_occ_marker_nil (occ_of_prefix _ _ _ h)
  | cons p ps ih =>
    intro j hj hps h
    cases ps with
    | nil =>
      rw [placeholder_eq] at h
      exact (hps p (by simp)).noMarker (occ_of_prefix _ _ _ h)
    | cons q qs =>
      rw [interleave_cons_cons] at h
      rcases occ_append _ _ _ h with h | h
      · rw [placeholder_eq k] at h
        have := startsIn_of_prefix _ _ _ _ h
        rw [placeholder_eq j, List.append_assoc] at this
        exact no_startsIn_marker p _ (hps p (by simp)).noMarker this
      · rcases occ_append _ _ _ h with h | h
        · have := no_startsIn_placeholder k j (by omega) _ h
          exact no_marker_from_us q qs (j + 1) (hps q (by simp)) this
        · exact ih (j + 1) (by omega) (fun x hx => hps x (by simp [hx])) h

theorem combine_aux (ls : List Str) : ∀ (k : Nat) (A p : Str) (ps : List Str), ps.length = ls.length →
    ¬ Occ MARKER (A ++ reassemble (p :: ps) ls) → (∀ q ∈ ps, PartOk q) →
    (ls.zipIdx k).foldl (fun e p => replaceAll (placeholder p.2) p.1 (e.length + 1) e)
        (A ++ interleaveParts (p :: ps) k) = A ++ reassemble (p :: ps) ls := by
  induction ls with
  | nil =>
    intro k A p ps hl _ _
    have : ps = [] := List.eq_nil_of_length_eq_zero (by simpa using hl)
    subst this
    simp [interleaveParts, reassemble]
  | cons l ls ih =>
    intro k A p ps hl hno hps
    cases ps with
    | nil => simp at hl
    | cons q qs =>
      rw [List.zipIdx_cons, List.foldl_cons]
      have e : A ++ interleaveParts (p :: q :: qs) k =
          (A ++ p) ++ placeholder k ++ interleaveParts (q :: qs) (k + 1) := by
        rw [interleave_cons_cons]; simp
      have hAp : ¬ Occ MARKER (A ++ p) := by
        intro h
        apply hno
        have := occ_append_left _ _ (l ++ reassemble (q :: qs) ls) h
        simpa [reassemble] using this
      have hF1 : ¬ StartsIn (placeholder k) (A ++ p) (placeholder k ++ interleaveParts (q :: qs) (k + 1)) := by
        intro h
        rw [placeholder_eq k] at h
        have := startsIn_of_prefix _ _ _ _ h
        rw [List.append_assoc] at this
        exact no_startsIn_marker _ _ hAp this
      have hF2 := no_placeholder_in_interleave k (q :: qs) (k + 1) (by omega) hps
      have hstep : replaceAll (placeholder k) l ((A ++ interleaveParts (p :: q :: qs) k).length + 1)
          (A ++ interleaveParts (p :: q :: qs) k) = (A ++ p ++ l) ++ interleaveParts (q :: qs) (k + 1) := by
        rw [e]
        exact replaceAll_unique _ _ _ _ (placeholder_ne_nil k) hF1 hF2 _ (Nat.lt_succ_self _)
      simp only
      rw [hstep]
      have := ih (k + 1) (A ++ p ++ l) q qs (by simpa using hl) (by simpa [reassemble] using hno)
        (fun x hx => hps x (by simp [hx]))
      rw [this]
      simp [reassemble]


theorem mem_parts_occ (ps : List Str) : ∀ (ls : List Str), ps.length = ls.length + 1 → ∀ q ∈ ps,
    Occ q (reassemble ps ls) := by
  induction ps with
  | nil => intro ls hl; simp at hl
  | cons p ps ih =>
    intro ls hl q hq
    cases ls with
    | nil =>
      have : ps = [] := List.eq_nil_of_length_eq_zero (by simpa using hl)
      subst this
      simp only [List.mem_singleton] at hq
      subst hq
      exact ⟨[], [], by simp [reassemble]⟩
    | cons l ls =>
      simp only [reassemble]
      simp only [List.mem_cons] at hq
      rcases hq with rfl | hq
      · exact ⟨[], l ++ reassemble ps ls, by simp⟩
      · exact occ_append_right _ _ _ (ih ls (by simpa using hl) q hq)

/-- **Putting the literals back gives the original text**, provided the marker text `___RBQL_STRING_LITERAL` does not
occur in the query AND no format part after a literal completes the closing `___` of the preceding placeholder to a
marker (i.e. starts with `RBQL_STRING_LITERAL`, `_RBQL_STRING_LITERAL` or `__RBQL_STRING_LITERAL`).  The first
hypothesis alone is NOT sufficient: see `combine_separate_counterexample_noMarker`. -/
theorem combine_separate_roundtrip (s : Str) (h : NoMarker s)
    (h2 : ∀ p ∈ (separateAux (s.length + 1) s [] [] []).1.tail,
      ¬ occursIn "___RBQL_STRING_LITERAL".toList ("___".toList ++ p)) :
    combineLiterals (interleaveParts (separateAux (s.length + 1) s [] [] []).1 0)
      (separateAux (s.length + 1) s [] [] []).2 = s := by
  have hshape := separateAux_shape s
  have hre := separateAux_reassemble s
  cases hp : (separateAux (s.length + 1) s [] [] []).1 with
  | nil => rw [hp] at hshape; simp at hshape
  | cons p ps =>
    rw [hp] at hshape hre h2
    have hno : ¬ Occ MARKER ([] ++ reassemble (p :: ps) (separateAux (s.length + 1) s [] [] []).2) := by
      rw [List.nil_append, hre]; exact (noMarker_iff s).mp h
    have hps : ∀ q ∈ ps, PartOk q := by
      intro q hq
      have := h2 q (by simpa using hq)
      unfold PartOk
      rw [← occursIn_iff]; exact this
    have := combine_aux _ 0 [] p ps (by simpa using hshape) hno hps
    simp only [List.nil_append] at this
    unfold combineLiterals
    rw [this, hre]

def CORE : Str := "RBQL_STRING_LITERAL".toList

theorem occ_core_of_marker (q : Str) (h : Occ MARKER (US ++ q)) : Occ CORE q := by
  obtain ⟨x, y, h⟩ := h
  have hm : MARKER = US ++ CORE := by decide
  rw [hm, ← List.append_assoc, List.append_assoc] at h
  rcases List.append_eq_append_iff.mp h with ⟨as, h1, h2⟩ | ⟨bs, h1, h2⟩
  · exact ⟨as, y, by rw [h2]; simp⟩
  · have hl := congrArg List.length h1
    simp only [List.length_append] at hl
    have hb : bs = [] := List.eq_nil_of_length_eq_zero (by omega)
    subst hb
    exact ⟨[], y, by simpa using h2.symm⟩

/-- a simpler sufficient condition: the text `RBQL_STRING_LITERAL` does not occur in the query at all -/
theorem combine_separate_roundtrip_core (s : Str) (h : ¬ occursIn "RBQL_STRING_LITERAL".toList s) :
    combineLiterals (interleaveParts (separateAux (s.length + 1) s [] [] []).1 0)
      (separateAux (s.length + 1) s [] [] []).2 = s := by
  have hc : ¬ Occ CORE s := by rw [← occursIn_iff]; exact h
  apply combine_separate_roundtrip
  · rw [noMarker_iff]
    intro hm
    exact hc (occ_core_of_marker s (occ_append_right _ US _ hm))
  · intro p hp hocc
    have hocc' : Occ MARKER (US ++ p) := (occursIn_iff _ _).mp hocc
    have h1 := occ_core_of_marker p hocc'
    have hmem : p ∈ (separateAux (s.length + 1) s [] [] []).1 := List.mem_of_mem_tail hp
    have h2 := mem_parts_occ _ _ (separateAux_shape s) p hmem
    rw [separateAux_reassemble] at h2
    exact hc (h1.trans h2)

/-- the roundtrip of a concrete query text -/
def roundtrip (s : Str) : Str :=
  combineLiterals (interleaveParts (separateAux (s.length + 1) s [] [] []).1 0) (separateAux (s.length + 1) s [] [] []).2

/-- the known counterexample (the hypothesis is needed): a literal that CONTAINS the placeholder of a later literal -/
theorem combine_separate_counterexample :
    roundtrip "'___RBQL_STRING_LITERAL1___','b'".toList ≠ "'___RBQL_STRING_LITERAL1___','b'".toList := by
  decide +kernel

/-- `NoMarker` alone is not sufficient: the marker text does not occur in this query, but the closing `___` of
placeholder 1 followed by the format part `RBQL_STRING_LITERAL0___ ` is read as placeholder 0 -/
theorem combine_separate_counterexample_noMarker :
    NoMarker "'x' 'y'RBQL_STRING_LITERAL0___ 'z'".toList ∧
    roundtrip "'x' 'y'RBQL_STRING_LITERAL0___ 'z'".toList = "'x' ___RBQL_STRING_LITERAL1'x' 'z'".toList := by
  unfold NoMarker
  decide +kernel

end Rbql
