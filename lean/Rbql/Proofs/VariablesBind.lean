/-
  Helper lemmas for the column-name variables model (`Rbql/Model/Variables.lean`): property C09, names leg.
-/
import Rbql.Model.Variables
import Rbql.Proofs.ParseInvariance
import Rbql.Theorems.C09
namespace Rbql

/-! ## the insertion-ordered dictionary -/

theorem VarMap.get?_set_same (m : VarMap) (k : Str) (v : VarInfo) : (m.set k v).get? k = some v := by
  induction m with
  | nil => simp [VarMap.set, VarMap.get?]
  | cons e rest ih =>
    obtain ⟨k', v'⟩ := e
    by_cases h : k' = k
    · simp [VarMap.set, VarMap.get?, h]
    · simp only [VarMap.set, h, if_false]
      simp only [VarMap.get?, List.find?_cons, h, decide_false] at ih ⊢
      exact ih

theorem VarMap.get?_set_other (m : VarMap) (k k' : Str) (v : VarInfo) (hne : k' ≠ k) :
    (m.set k v).get? k' = m.get? k' := by
  induction m with
  | nil =>
    have : ¬ k = k' := fun h => hne h.symm
    simp [VarMap.set, VarMap.get?, this]
  | cons e rest ih =>
    obtain ⟨k1, v1⟩ := e
    by_cases h : k1 = k
    · subst h
      have : ¬ k1 = k' := fun h => hne h.symm
      simp [VarMap.set, VarMap.get?, this]
    · simp only [VarMap.set, h, if_false]
      by_cases h2 : k1 = k'
      · simp [VarMap.get?, h2]
      · simp only [VarMap.get?, List.find?_cons, h2, decide_false] at ih ⊢
        exact ih

/-- `setAll m L`: perform the assignments `d[k] = v` for `(k, v)` in `L`, in order -/
def setAll (m : VarMap) (L : List (Str × VarInfo)) : VarMap := L.foldl (fun acc e => acc.set e.1 e.2) m

theorem setAll_nil (m : VarMap) : setAll m [] = m := rfl
theorem setAll_cons (m : VarMap) (e : Str × VarInfo) (L : List (Str × VarInfo)) :
    setAll m (e :: L) = setAll (m.set e.1 e.2) L := rfl

theorem setAll_get?_untouched (L : List (Str × VarInfo)) (m : VarMap) (k : Str) (h : ∀ e ∈ L, e.1 ≠ k) :
    (setAll m L).get? k = m.get? k := by
  induction L generalizing m with
  | nil => rfl
  | cons e L ih =>
    rw [setAll_cons, ih _ (fun e' he' => h e' (List.mem_cons_of_mem _ he'))]
    exact VarMap.get?_set_other m e.1 k e.2 (fun hk => h e List.mem_cons_self hk.symm)

/-- if every assignment to `k` assigns `v`, and there is one, the final value is `v` -/
theorem setAll_get?_consistent (L : List (Str × VarInfo)) (m : VarMap) (k : Str) (v : VarInfo)
    (hall : ∀ e ∈ L, e.1 = k → e.2 = v) (hex : ∃ e ∈ L, e.1 = k) : (setAll m L).get? k = some v := by
  induction L generalizing m with
  | nil => simp at hex
  | cons e L ih =>
    rw [setAll_cons]
    by_cases hL : ∃ e' ∈ L, e'.1 = k
    · exact ih _ (fun e' he' => hall e' (List.mem_cons_of_mem _ he')) hL
    · have hek : e.1 = k := by
        obtain ⟨e', he', hk⟩ := hex
        rcases List.mem_cons.mp he' with rfl | h
        · exact hk
        · exact absurd ⟨e', h, hk⟩ hL
      rw [setAll_get?_untouched L _ k (fun e' he' hk => hL ⟨e', he', hk⟩)]
      have hv := hall e List.mem_cons_self hek
      subst hek
      rw [← hv]
      exact VarMap.get?_set_same m e.1 e.2

/-! ## name segments survive escaping -/

theorem isSegmentChar_plain (q c : Char) (hq : q = '"' ∨ q = '\'' ∨ q = '`') (h : isSegmentChar c = true) :
    c ≠ BSLASH ∧ c ≠ LF ∧ c ≠ CR ∧ c ≠ TAB ∧ c ≠ q := by
  refine ⟨?_, ?_, ?_, ?_, ?_⟩
  · rintro rfl; revert h; decide
  · rintro rfl; revert h; decide
  · rintro rfl; revert h; decide
  · rintro rfl; revert h; decide
  · rintro rfl; rcases hq with rfl | rfl | rfl <;> (revert h; decide)

theorem pyEscape_append (q : Char) (x y : Str) : pyEscape q (x ++ y) = pyEscape q x ++ pyEscape q y := by
  induction x with
  | nil => simp [pyEscape]
  | cons c cs ih => simp only [List.cons_append, pyEscape, ih, List.append_assoc]

theorem pyEscape_segment (q : Char) (hq : q = '"' ∨ q = '\'' ∨ q = '`') (s : Str)
    (h : ∀ c ∈ s, isSegmentChar c = true) : pyEscape q s = s := by
  induction s with
  | nil => simp [pyEscape]
  | cons c cs ih =>
    obtain ⟨h1, h2, h3, h4, h5⟩ := isSegmentChar_plain q c hq (h c List.mem_cons_self)
    simp only [pyEscape, h1, h2, h3, h4, h5, if_false, List.cons_append, List.nil_append]
    rw [ih (fun c' hc' => h c' (List.mem_cons_of_mem _ hc'))]

/-- every segment is a run of segment characters that occurs in the name -/
theorem nameSegments_spec (s cur seg : Str) (hcur : ∀ c ∈ cur, isSegmentChar c = true)
    (h : seg ∈ nameSegments s cur) :
    (∀ c ∈ seg, isSegmentChar c = true) ∧ ∃ x y, cur.reverse ++ s = x ++ seg ++ y := by
  induction s generalizing cur with
  | nil =>
    simp only [nameSegments] at h
    split at h
    · simp at h
    · simp only [List.mem_singleton] at h
      subst h
      exact ⟨by simpa using hcur, [], [], by simp⟩
  | cons c cs ih =>
    simp only [nameSegments] at h
    split at h
    · rename_i hc
      obtain ⟨h1, x, y, h2⟩ := ih (c :: cur) (by
        intro c' hc'
        rcases List.mem_cons.mp hc' with rfl | h'
        · exact hc
        · exact hcur c' h') h
      exact ⟨h1, x, y, by simpa using h2⟩
    · split at h
      · rename_i hce
        obtain ⟨h1, x, y, h2⟩ := ih [] (by simp) h
        have : cur = [] := by simpa using hce
        subst this
        refine ⟨h1, c :: x, y, ?_⟩
        simp only [List.reverse_nil, List.nil_append] at h2 ⊢
        rw [h2]; simp
      · rcases List.mem_cons.mp h with rfl | h'
        · exact ⟨by simpa using hcur, [], c :: cs, by simp⟩
        · obtain ⟨h1, x, y, h2⟩ := ih [] (by simp) h'
          refine ⟨h1, cur.reverse ++ c :: x, y, ?_⟩
          simp only [List.reverse_nil, List.nil_append] at h2
          rw [h2]; simp

theorem segment_occ_escape (q : Char) (hq : q = '"' ∨ q = '\'' ∨ q = '`') (name seg : Str)
    (h : seg ∈ nameSegments name []) : Occ seg (pyEscape q name) := by
  obtain ⟨h1, x, y, h2⟩ := nameSegments_spec name [] seg (by simp) h
  simp only [List.reverse_nil, List.nil_append] at h2
  refine ⟨pyEscape q x, pyEscape q y, ?_⟩
  rw [h2, pyEscape_append, pyEscape_append, pyEscape_segment q hq seg h1]

theorem escape_occ_dictKey (pfx q : Char) (name : Str) : Occ (pyEscape q name) (dictKey pfx q name) :=
  ⟨[pfx, '[', q], [q, ']'], by simp [dictKey]⟩

/-! ## dictionary keys -/

theorem dictKey_quote_inj (pfx q q' : Char) (n n' : Str) (h : dictKey pfx q n = dictKey pfx q' n') : q = q' := by
  simp only [dictKey, List.cons_append, List.nil_append, List.cons.injEq, true_and] at h
  exact h.1

theorem pyEscape_inj (q : Char) (hq : q = '"' ∨ q = '\'') (n n' : Str) (h : pyEscape q n = pyEscape q n') : n = n' := by
  have hq' : q = QUOTE ∨ q = SQUOTE := hq
  have h1 := C09_escape_unescape q hq' n
  have h2 := C09_escape_unescape q hq' n'
  rw [h, h2] at h1
  exact (Option.some.inj h1).symm

theorem dictKey_name_inj (pfx q : Char) (hq : q = '"' ∨ q = '\'') (n n' : Str)
    (h : dictKey pfx q n = dictKey pfx q n') : n = n' := by
  simp only [dictKey, List.cons_append, List.nil_append, List.cons.injEq, true_and, List.append_assoc] at h
  exact pyEscape_inj q hq n n' (List.append_cancel_right h)

/-! ## `a[` is detected -/

theorem hasSubscriptOf_detect (pfx : Char) (rest pre : Str) (b : Bool)
    (h0 : pre = [] → b = true) (hl : ∀ p l, pre = p ++ [l] → isWordChar l = false) :
    hasSubscriptOf pfx b (pre ++ pfx :: '[' :: rest) = true := by
  induction pre generalizing b with
  | nil => simp [hasSubscriptOf, h0 rfl]
  | cons c cs ih =>
    simp only [List.cons_append, hasSubscriptOf, Bool.or_eq_true]
    right
    apply ih
    · rintro rfl
      simp [hl [] c rfl]
    · intro p l hp
      exact hl (c :: p) l (by simp [hp])

/-! ## `parse_dictionary_variables` -/

/-- one step of the loop of `parse_dictionary_variables` -/
def dictStep (js : Bool) (query : Str) (pfx : Char) (acc : VarMap) (p : Str × Nat) : VarMap :=
  if queryProbablyHasDictVar query p.1 then
    let acc := acc.set (dictKey pfx '"' p.1) { init := true, index := p.2 }
    let acc := acc.set (dictKey pfx '\'' p.1) { init := false, index := p.2 }
    if js then acc.set (dictKey pfx '`' p.1) { init := false, index := p.2 } else acc
  else acc

theorem parseDictionaryVariables_eq (js : Bool) (query : Str) (pfx : Char) (names : List Str) (m : VarMap)
    (h : hasSubscriptOf pfx true query = true) :
    parseDictionaryVariables js query pfx names m = names.zipIdx.foldl (dictStep js query pfx) m := by
  simp only [parseDictionaryVariables, h, Bool.not_true, Bool.false_eq_true, if_false]
  rfl

theorem dictStep_untouched (js : Bool) (query : Str) (pfx q : Char) (hq : q = '"' ∨ q = '\'') (name : Str)
    (acc : VarMap) (p : Str × Nat) (hp : p.1 ≠ name) :
    (dictStep js query pfx acc p).get? (dictKey pfx q name) = acc.get? (dictKey pfx q name) := by
  have key : ∀ q', dictKey pfx q name ≠ dictKey pfx q' p.1 := by
    intro q' heq
    have := dictKey_quote_inj pfx q q' name p.1 heq
    subst this
    exact hp (dictKey_name_inj pfx q hq name p.1 heq).symm
  unfold dictStep
  split
  · split
    · rw [VarMap.get?_set_other _ _ _ _ (key _), VarMap.get?_set_other _ _ _ _ (key _),
        VarMap.get?_set_other _ _ _ _ (key _)]
    · rw [VarMap.get?_set_other _ _ _ _ (key _), VarMap.get?_set_other _ _ _ _ (key _)]
  · rfl

theorem dictFold_untouched (js : Bool) (query : Str) (pfx q : Char) (hq : q = '"' ∨ q = '\'') (name : Str)
    (B : List (Str × Nat)) (acc : VarMap) (hB : ∀ p ∈ B, p.1 ≠ name) :
    (B.foldl (dictStep js query pfx) acc).get? (dictKey pfx q name) = acc.get? (dictKey pfx q name) := by
  induction B generalizing acc with
  | nil => rfl
  | cons p B ih =>
    rw [List.foldl_cons, ih _ (fun p' hp' => hB p' (List.mem_cons_of_mem _ hp'))]
    exact dictStep_untouched js query pfx q hq name acc p (hB p List.mem_cons_self)

theorem dictStep_here (js : Bool) (query : Str) (pfx : Char) (name : Str) (i : Nat) (acc : VarMap)
    (hqp : queryProbablyHasDictVar query name = true) :
    (dictStep js query pfx acc (name, i)).get? (dictKey pfx '"' name) = some ⟨true, i⟩ ∧
    (dictStep js query pfx acc (name, i)).get? (dictKey pfx '\'' name) = some ⟨false, i⟩ := by
  have k1 : dictKey pfx '"' name ≠ dictKey pfx '\'' name := fun h => by
    have := dictKey_quote_inj _ _ _ _ _ h; revert this; decide
  have k2 : dictKey pfx '"' name ≠ dictKey pfx '`' name := fun h => by
    have := dictKey_quote_inj _ _ _ _ _ h; revert this; decide
  have k3 : dictKey pfx '\'' name ≠ dictKey pfx '`' name := fun h => by
    have := dictKey_quote_inj _ _ _ _ _ h; revert this; decide
  unfold dictStep
  simp only [hqp, if_true]
  cases js
  · simp only [Bool.false_eq_true, if_false]
    exact ⟨by rw [VarMap.get?_set_other _ _ _ _ k1, VarMap.get?_set_same], VarMap.get?_set_same _ _ _⟩
  · simp only [if_true]
    exact ⟨by rw [VarMap.get?_set_other _ _ _ _ k2, VarMap.get?_set_other _ _ _ _ k1, VarMap.get?_set_same],
      by rw [VarMap.get?_set_other _ _ _ _ k3, VarMap.get?_set_same]⟩

theorem zipIdx_fst_mem {α} (B : List α) (n : Nat) (p : α × Nat) (h : p ∈ B.zipIdx n) : p.1 ∈ B :=
  List.fst_mem_of_mem_zipIdx h

theorem dictFold_binds (js : Bool) (query : Str) (pfx : Char) (name : Str) (A B : List Str) (m : VarMap)
    (hqp : queryProbablyHasDictVar query name = true) (hB : name ∉ B) :
    ((A ++ name :: B).zipIdx.foldl (dictStep js query pfx) m).get? (dictKey pfx '"' name) = some ⟨true, A.length⟩ ∧
    ((A ++ name :: B).zipIdx.foldl (dictStep js query pfx) m).get? (dictKey pfx '\'' name) = some ⟨false, A.length⟩ := by
  have hB' : ∀ p ∈ B.zipIdx (A.length + 1), p.1 ≠ name := by
    intro p hp heq
    exact hB (heq ▸ zipIdx_fst_mem B _ p hp)
  rw [List.zipIdx_append, List.zipIdx_cons, List.foldl_append, List.foldl_cons]
  simp only [Nat.zero_add]
  rw [dictFold_untouched js query pfx '"' (Or.inl rfl) name _ _ hB',
    dictFold_untouched js query pfx '\'' (Or.inr rfl) name _ _ hB']
  exact dictStep_here js query pfx name A.length _ hqp

/-! ## the attribute-name scanner -/

/-- the match attempt of `attrNames` at a position -/
def attrMatchAt (pfx : Char) (boundary : Bool) (c : Char) (cs : Str) : Option Str :=
  if boundary && c == pfx then
    (match cs with
     | '.' :: n :: rest => if isIdStart n then some (n :: rest.takeWhile isWordChar) else none
     | _ => none)
  else none

theorem attrNames_zero_cons (pfx : Char) (b : Bool) (c : Char) (cs : Str) :
    attrNames pfx 0 b (c :: cs) =
      match attrMatchAt pfx b c cs with
      | some name => name :: attrNames pfx (name.length + 1) false cs
      | none => attrNames pfx 0 (!isWordChar c) cs := by
  rfl

theorem attrMatchAt_some (pfx : Char) (b : Bool) (c : Char) (cs nm : Str) (h : attrMatchAt pfx b c cs = some nm) :
    b = true ∧ c = pfx ∧ ∃ n rest, cs = '.' :: n :: rest ∧ isIdStart n = true ∧ nm = n :: rest.takeWhile isWordChar := by
  unfold attrMatchAt at h
  split at h
  · rename_i hb
    simp only [Bool.and_eq_true, beq_iff_eq] at hb
    split at h
    · rename_i n rest
      split at h
      · rename_i hn
        exact ⟨hb.1, hb.2, n, rest, rfl, hn, (Option.some.inj h).symm⟩
      · simp at h
    · simp at h
  · simp at h

theorem takeWhile_length_le (f : Char → Bool) (p : Str) (l : Char) (t : Str) (hl : f l = false) :
    ((p ++ l :: t).takeWhile f).length ≤ p.length := by
  induction p with
  | nil => simp [hl]
  | cons a p ih =>
    simp only [List.cons_append, List.takeWhile_cons]
    split
    · simp only [List.length_cons]; omega
    · simp

theorem takeWhile_all_append (f : Char → Bool) (ns post : Str) (hns : ns.all f = true)
    (hpost : post = [] ∨ ∃ d r, post = d :: r ∧ f d = false) : (ns ++ post).takeWhile f = ns := by
  induction ns with
  | nil =>
    rcases hpost with rfl | ⟨d, r, rfl, hd⟩
    · rfl
    · simp [hd]
  | cons a ns ih =>
    simp only [List.all_cons, Bool.and_eq_true] at hns
    simp only [List.cons_append, List.takeWhile_cons, hns.1, if_true, ih hns.2]

theorem isIdStart_isWordChar (c : Char) (h : isIdStart c = true) : isWordChar c = true := by
  simp only [isIdStart, Bool.or_eq_true] at h
  simp only [isWordChar, Bool.or_eq_true]
  rcases h with h | h
  · exact Or.inl (Or.inl h)
  · exact Or.inl (Or.inr h)

theorem exists_concat_of_ne_nil {α} (l : List α) (h : l ≠ []) : ∃ p x, l = p ++ [x] :=
  ⟨l.dropLast, l.getLast h, (List.dropLast_concat_getLast h).symm⟩

/-- the text before an occurrence is empty or ends with a non-word character -/
def BoundaryBefore (pre : Str) : Prop := ∀ p l, pre = p ++ [l] → isWordChar l = false

/-- the text after an occurrence is empty or starts with a non-word character -/
def BoundaryAfter (post : Str) : Prop := post = [] ∨ ∃ d r, post = d :: r ∧ isWordChar d = false

theorem attrNames_complete_aux (pfx : Char) (name post : Str) (hid : isIdentifierName name = true)
    (hpost : BoundaryAfter post) (pre : Str) (skip : Nat) (b : Bool)
    (hskip : skip ≤ pre.length) (h0 : pre = [] → b = true) (hl : BoundaryBefore pre)
    (hclear : ¬ [pfx, '.'] <:+ pre) :
    name ∈ attrNames pfx skip b (pre ++ pfx :: '.' :: (name ++ post)) := by
  induction pre generalizing skip b with
  | nil =>
    have hs : skip = 0 := by simpa using hskip
    subst hs
    have hb := h0 rfl
    subst hb
    cases name with
    | nil => simp [isIdentifierName] at hid
    | cons n ns =>
      simp only [isIdentifierName, Bool.and_eq_true] at hid
      have htw := takeWhile_all_append isWordChar ns post hid.2 hpost
      simp only [List.nil_append, List.cons_append]
      rw [attrNames_zero_cons]
      have : attrMatchAt pfx true pfx ('.' :: n :: (ns ++ post)) = some (n :: ns) := by
        simp [attrMatchAt, hid.1, htw]
      rw [this]
      exact List.mem_cons_self
  | cons c pre1 ih =>
    have hl1 : BoundaryBefore pre1 := fun p l hp => hl (c :: p) l (by simp [hp])
    have hclear1 : ¬ [pfx, '.'] <:+ pre1 := fun hs => hclear (hs.trans (List.suffix_cons c pre1))
    have hnil : pre1 = [] → (!isWordChar c) = true := by
      rintro rfl
      simp [hl [] c rfl]
    simp only [List.cons_append]
    cases skip with
    | succ k =>
      rw [attrNames]
      exact ih k _ (by simpa using hskip) hnil hl1 hclear1
    | zero =>
      rw [attrNames_zero_cons]
      cases hm : attrMatchAt pfx b c (pre1 ++ pfx :: '.' :: (name ++ post)) with
      | none => exact ih 0 _ (Nat.zero_le _) hnil hl1 hclear1
      | some nm =>
        simp only
        apply List.mem_cons_of_mem
        obtain ⟨_, hc, n, rest, hcs, hn, hnm⟩ := attrMatchAt_some pfx b c _ nm hm
        have hlen : nm.length + 1 ≤ pre1.length := by
          match pre1, hcs, hl, hclear with
          | [], hcs, _, _ =>
            simp only [List.nil_append, List.cons.injEq] at hcs
            obtain ⟨h1, h2, _⟩ := hcs
            rw [← h2] at hn
            exact absurd hn (by decide)
          | [d], hcs, _, hclear =>
            simp only [List.cons_append, List.nil_append, List.cons.injEq] at hcs
            exact absurd (by rw [hc, hcs.1]; exact List.suffix_refl _) hclear
          | d :: e :: pre2, hcs, hl, _ =>
            simp only [List.cons_append, List.cons.injEq] at hcs
            obtain ⟨_, he, hrest⟩ := hcs
            have hne : pre2 ≠ [] := by
              rintro rfl
              have := hl [c, d] e rfl
              rw [he, isIdStart_isWordChar n hn] at this
              exact absurd this (by decide)
            obtain ⟨p, l, rfl⟩ := exists_concat_of_ne_nil pre2 hne
            have hlw := hl (c :: d :: e :: p) l rfl
            have := takeWhile_length_le isWordChar p l (pfx :: '.' :: (name ++ post)) hlw
            rw [hnm, ← hrest]
            simp only [List.append_assoc, List.cons_append, List.nil_append, List.length_cons, List.length_append,
              List.length_nil]
            omega
        refine ih (nm.length + 1) false hlen ?_ hl1 hclear1
        rintro rfl
        simp at hlen

/-! ## the column an attribute name denotes -/

theorem find_zipIdx_none {A : List Str} {k : Nat} {name : Str} (h : name ∉ A) :
    (A.zipIdx k).find? (fun p => p.1 == name) = none := by
  rw [List.find?_eq_none]
  intro p hp heq
  exact h ((beq_iff_eq.mp heq) ▸ List.fst_mem_of_mem_zipIdx hp)

theorem find_reverse_zipIdx_none {A : List Str} {k : Nat} {name : Str} (h : name ∉ A) :
    (A.zipIdx k).reverse.find? (fun p => p.1 == name) = none := by
  rw [List.find?_eq_none]
  intro p hp heq
  exact h ((beq_iff_eq.mp heq) ▸ List.fst_mem_of_mem_zipIdx (List.mem_reverse.mp hp))

/-- rbql.js (`indexOf`): the FIRST column of that name -/
theorem attrColumn_js_first (A B : List Str) (name : Str) (hA : name ∉ A) :
    attrColumn true (A ++ name :: B) name = some A.length := by
  simp [attrColumn, List.zipIdx_append, List.find?_append, find_zipIdx_none hA, List.zipIdx_cons]

/-- Python (`{name: index}`): the LAST column of that name -/
theorem attrColumn_py_last (A B : List Str) (name : Str) (hB : name ∉ B) :
    attrColumn false (A ++ name :: B) name = some A.length := by
  simp [attrColumn, List.zipIdx_append, List.find?_append, find_reverse_zipIdx_none hB, List.zipIdx_cons]

theorem attrColumn_none_of_not_mem (js : Bool) (names : List Str) (name : Str) (h : name ∉ names) :
    attrColumn js names name = none := by
  cases js
  · simp [attrColumn, find_reverse_zipIdx_none h]
  · simp [attrColumn, find_zipIdx_none h]

theorem attrColumn_some_of_mem (js : Bool) (names : List Str) (name : Str) (h : name ∈ names) :
    ∃ i, attrColumn js names name = some i := by
  obtain ⟨i, hi, hget⟩ := List.mem_iff_getElem.mp h
  have hmem : (name, i) ∈ names.zipIdx := List.mk_mem_zipIdx_iff_getElem?.mpr (by simp [hi, hget])
  cases js
  · cases hf : names.zipIdx.reverse.find? (fun p => p.1 == name) with
    | none =>
      rw [List.find?_eq_none] at hf
      exact absurd (by simp) (hf (name, i) (List.mem_reverse.mpr hmem))
    | some p => exact ⟨p.2, by simp [attrColumn, hf]⟩
  · cases hf : names.zipIdx.find? (fun p => p.1 == name) with
    | none =>
      rw [List.find?_eq_none] at hf
      exact absurd (by simp) (hf (name, i) hmem)
    | some p => exact ⟨p.2, by simp [attrColumn, hf]⟩

theorem split_at_index {α} (names : List α) (i : Nat) (hi : i < names.length) :
    names = names.take i ++ names[i] :: names.drop (i + 1) ∧ (names.take i).length = i := by
  refine ⟨?_, by simp; omega⟩
  rw [List.getElem_cons_drop hi, List.take_append_drop]

theorem nodup_split {α} (A B : List α) (x : α) (h : (A ++ x :: B).Nodup) : x ∉ A ∧ x ∉ B := by
  rw [List.nodup_append] at h
  obtain ⟨_, h2, h3⟩ := h
  exact ⟨fun hx => h3 x hx x List.mem_cons_self rfl, (List.nodup_cons.mp h2).1⟩

/-- for distinct names both ports agree: the position -/
theorem attrColumn_nodup (js : Bool) (names : List Str) (hd : names.Nodup) (i : Nat) (hi : i < names.length) :
    attrColumn js names names[i] = some i := by
  obtain ⟨hsplit, hlen⟩ := split_at_index names i hi
  have hnd := hd
  rw [hsplit] at hnd
  obtain ⟨hA, hB⟩ := nodup_split _ _ _ hnd
  cases js
  · have := attrColumn_py_last (names.take i) _ _ hB
    rw [← hsplit, hlen] at this
    exact this
  · have := attrColumn_js_first _ (names.drop (i + 1)) _ hA
    rw [← hsplit, hlen] at this
    exact this

/-! ## `parse_attribute_variables` -/

def attrStep (js : Bool) (pfx : Char) (names : List Str) (acc : VarMap) (name : Str) : Except VarErr VarMap :=
  match attrColumn js names name with
  | some i => .ok (acc.set ([pfx, '.'] ++ name) { init := true, index := i })
  | none => .error (.columnNotFound name)

theorem parseAttributeVariables_eq (js : Bool) (query : Str) (pfx : Char) (names : List Str) (m : VarMap) :
    parseAttributeVariables js query pfx names m = (attrNames pfx 0 true query).foldlM (attrStep js pfx names) m := rfl

/-- the assignments the loop performs when every attribute name is a column name -/
def attrWrites (js : Bool) (pfx : Char) (names : List Str) (L : List Str) : List (Str × VarInfo) :=
  L.map (fun n => ([pfx, '.'] ++ n, { init := true, index := (attrColumn js names n).getD 0 }))

theorem attrFold_ok (js : Bool) (pfx : Char) (names : List Str) (L : List Str) (m : VarMap)
    (h : ∀ n ∈ L, n ∈ names) :
    L.foldlM (attrStep js pfx names) m = .ok (setAll m (attrWrites js pfx names L)) := by
  induction L generalizing m with
  | nil => rfl
  | cons n L ih =>
    obtain ⟨i, hi⟩ := attrColumn_some_of_mem js names n (h n List.mem_cons_self)
    rw [List.foldlM_cons]
    have : attrStep js pfx names m n = .ok (m.set ([pfx, '.'] ++ n) ⟨true, i⟩) := by simp [attrStep, hi]
    rw [this]
    show List.foldlM _ _ L = _
    rw [ih _ (fun n' hn' => h n' (List.mem_cons_of_mem _ hn'))]
    simp [attrWrites, setAll_cons, hi]

theorem attrFold_error (js : Bool) (pfx : Char) (names : List Str) (A B : List Str) (n : Str) (m : VarMap)
    (hA : ∀ a ∈ A, a ∈ names) (hn : n ∉ names) :
    (A ++ n :: B).foldlM (attrStep js pfx names) m = .error (.columnNotFound n) := by
  rw [List.foldlM_append, attrFold_ok js pfx names A m hA]
  show List.foldlM (attrStep js pfx names) (setAll m (attrWrites js pfx names A)) (n :: B) = _
  rw [List.foldlM_cons]
  have : ∀ m', attrStep js pfx names m' n = .error (.columnNotFound n) := by
    intro m'; simp [attrStep, attrColumn_none_of_not_mem js names n hn]
  rw [this]
  rfl

theorem attrWrites_get (js : Bool) (pfx : Char) (names : List Str) (L : List Str) (m : VarMap) (name : Str) (i : Nat)
    (hmem : name ∈ L) (hi : attrColumn js names name = some i) :
    (setAll m (attrWrites js pfx names L)).get? ([pfx, '.'] ++ name) = some ⟨true, i⟩ := by
  apply setAll_get?_consistent
  · intro e he hk
    simp only [attrWrites, List.mem_map] at he
    obtain ⟨n, _, rfl⟩ := he
    simp only [List.cons_append, List.nil_append, List.cons.injEq, true_and] at hk
    subst hk
    simp [hi]
  · exact ⟨_, List.mem_map.mpr ⟨name, hmem, rfl⟩, rfl⟩

/-! ## `map_variables_directly` -/

def directStep (query : Str) (acc : VarMap) (p : Str × Nat) : Except VarErr VarMap :=
  if !isIdentifierName p.1 then .error (.badDirectName p.1)
  else if occursIn p.1 query then .ok (acc.set p.1 { init := true, index := p.2 })
  else .ok acc

theorem mapVariablesDirectly_eq (query : Str) (names : List Str) (m : VarMap) :
    mapVariablesDirectly query names m = names.zipIdx.foldlM (directStep query) m := rfl

def directWrites (query : Str) (L : List (Str × Nat)) : List (Str × VarInfo) :=
  L.filterMap (fun p => if occursIn p.1 query then some (p.1, { init := true, index := p.2 }) else none)

theorem directFold_ok (query : Str) (L : List (Str × Nat)) (m : VarMap)
    (h : ∀ p ∈ L, isIdentifierName p.1 = true) :
    L.foldlM (directStep query) m = .ok (setAll m (directWrites query L)) := by
  induction L generalizing m with
  | nil => rfl
  | cons p L ih =>
    rw [List.foldlM_cons]
    have hp := h p List.mem_cons_self
    by_cases ho : occursIn p.1 query = true
    · have : directStep query m p = .ok (m.set p.1 ⟨true, p.2⟩) := by simp [directStep, hp, ho]
      rw [this]
      show List.foldlM _ _ L = _
      rw [ih _ (fun p' hp' => h p' (List.mem_cons_of_mem _ hp'))]
      simp [directWrites, ho, setAll_cons]
    · have : directStep query m p = .ok m := by simp [directStep, hp, ho]
      rw [this]
      show List.foldlM _ _ L = _
      rw [ih _ (fun p' hp' => h p' (List.mem_cons_of_mem _ hp'))]
      simp [directWrites, ho]

theorem directFold_error (query : Str) (A B : List (Str × Nat)) (p : Str × Nat) (m : VarMap)
    (hA : ∀ a ∈ A, isIdentifierName a.1 = true) (hp : isIdentifierName p.1 = false) :
    (A ++ p :: B).foldlM (directStep query) m = .error (.badDirectName p.1) := by
  rw [List.foldlM_append, directFold_ok query A m hA]
  show List.foldlM (directStep query) (setAll m (directWrites query A)) (p :: B) = _
  rw [List.foldlM_cons]
  have : ∀ m', directStep query m' p = .error (.badDirectName p.1) := by
    intro m'; simp [directStep, hp]
  rw [this]
  rfl

theorem directWrites_get (query : Str) (names : List Str) (hd : names.Nodup) (m : VarMap) (i : Nat)
    (hi : i < names.length) (ho : occursIn names[i] query = true) :
    (setAll m (directWrites query names.zipIdx)).get? names[i] = some ⟨true, i⟩ := by
  apply setAll_get?_consistent
  · intro e he hk
    simp only [directWrites, List.mem_filterMap] at he
    obtain ⟨p, hp, hf⟩ := he
    split at hf
    · have he := (Option.some.inj hf).symm
      subst he
      obtain ⟨a, j⟩ := p
      have hj := List.mk_mem_zipIdx_iff_getElem?.mp hp
      obtain ⟨hjl, hja⟩ := List.getElem?_eq_some_iff.mp hj
      simp only at hk
      have : j = i := (List.getElem_inj hd).mp (by rw [hja, hk])
      simp [this]
    · simp at hf
  · refine ⟨(names[i], ⟨true, i⟩), ?_, rfl⟩
    simp only [directWrites, List.mem_filterMap]
    exact ⟨(names[i], i), List.mk_mem_zipIdx_iff_getElem?.mpr (by simp [hi]), by simp [ho]⟩

/-! ## boundary hypotheses in disjunctive form -/

theorem BoundaryBefore.of_or (pre : Str) (h : pre = [] ∨ ∃ p l, pre = p ++ [l] ∧ isWordChar l = false) :
    BoundaryBefore pre := by
  intro p l hp
  rcases h with rfl | ⟨p', l', rfl, hl'⟩
  · simp at hp
  · obtain ⟨_, h2⟩ := List.append_inj' hp rfl
    simp only [List.cons.injEq, and_true] at h2
    rw [← h2]; exact hl'

/-! ## `ensure_no_ambiguous_variables` -/

theorem ensureNoAmbiguous_error_iff (query : Str) (inputNames joinNames : List Str) :
    (ensureNoAmbiguous query inputNames joinNames).isOk = false ↔
      ∃ n ∈ inputNames, n ∈ joinNames ∧ occursIn n query = true := by
  unfold ensureNoAmbiguous
  cases hf : inputNames.find? (fun n => joinNames.contains n && occursIn n query) with
  | none =>
    rw [List.find?_eq_none] at hf
    simp only [Except.isOk, Except.toBool, Bool.true_eq_false, false_iff]
    rintro ⟨n, hn, hj, ho⟩
    exact hf n hn (by simp [hj, ho])
  | some n =>
    simp only [Except.isOk, Except.toBool, true_iff]
    have h1 := List.find?_some hf
    simp only [Bool.and_eq_true, List.contains_iff_mem] at h1
    exact ⟨n, List.mem_of_find?_eq_some hf, h1.1, h1.2⟩

theorem ensureNoAmbiguous_first (query : Str) (A B joinNames : List Str) (n : Str)
    (hA : ∀ a ∈ A, ¬ (a ∈ joinNames ∧ occursIn a query = true)) (hj : n ∈ joinNames) (ho : occursIn n query = true) :
    ensureNoAmbiguous query (A ++ n :: B) joinNames = .error (.ambiguous n) := by
  unfold ensureNoAmbiguous
  have h1 : A.find? (fun n => joinNames.contains n && occursIn n query) = none := by
    rw [List.find?_eq_none]
    intro a ha hh
    simp only [Bool.and_eq_true, List.contains_iff_mem] at hh
    exact hA a ha hh
  rw [List.find?_append, h1]
  simp [hj, ho]

/-! ## hostile names for the non-vacuity examples -/

/-- a name with a space, with a TAB, with both quotes, with a backslash, and an identifier -/
def hostileNames : List Str :=
  ["name two".toList, "a\tb".toList, "q\"'x".toList, "back\\slash".toList, "id".toList]

/-- `select a["name two"], a['a\tb'], a["q\"'x"], a['back\\slash'], a.id` (as the user types it) -/
def hostileQuery : Str :=
  "select a[\"name two\"], a['a\\tb'], a[\"q\\\"'x\"], a['back\\\\slash'], a.id".toList

end Rbql
