/-
  Soundness of the row-flow may-alias check (`Model/RowFlow.lean`, property C06).

  * `RowFlow.ClosedSet` — the semantic reading of `RowFlow.closed`;
  * `FlowInv` — the invariant of the heap machine; `exec_preserves`, `execAll_preserves`;
  * `RowFlow.mayInput_closed` — the iteration `closure binds.length inputs` always reaches a closed set;
  * `RowFlow.closure_least` — it is below every closed set; hence `check` is monotone in the flow.
-/
import Rbql.Model.RowFlow
namespace Rbql

/-! ### the check, read semantically -/

/-- `S` contains the input names and is closed under the alias bindings of `f` -/
structure RowFlow.ClosedSet (f : RowFlow) (S : List String) : Prop where
  inputs : ∀ x ∈ f.inputs, x ∈ S
  alias : ∀ x y, (x, BindKind.alias, y) ∈ f.binds → y ∈ S → x ∈ S

theorem RowFlow.closed_iff (f : RowFlow) (S : List String) : f.closed S = true ↔ f.ClosedSet S := by
  unfold RowFlow.closed
  simp only [Bool.and_eq_true, List.all_eq_true, List.contains_iff_mem, Bool.or_eq_true, Bool.not_eq_true',
    Bool.and_eq_false_iff]
  constructor
  · rintro ⟨h1, h2⟩
    refine ⟨h1, ?_⟩
    intro x y hb hy
    have := h2 _ hb
    simp only [beq_eq_false_iff_ne, ne_eq, not_true_eq_false, false_or] at this
    rcases this with h | h
    · simp [hy] at h
    · exact h
  · rintro ⟨h1, h2⟩
    refine ⟨h1, ?_⟩
    rintro ⟨x, k, y⟩ hb
    by_cases hk : k = .alias
    · subst hk
      by_cases hy : y ∈ S
      · exact Or.inr (h2 x y hb hy)
      · exact Or.inl (Or.inr (by simpa using hy))
    · exact Or.inl (Or.inl (by simpa using hk))

/-- what `check = true` says -/
theorem RowFlow.check_iff (f : RowFlow) :
    f.check = true ↔ f.ClosedSet f.mayInput ∧ (∀ x ∈ f.mutated, x ∉ f.mayInput) ∧ (∀ x ∈ f.written, x ∉ f.mayInput) := by
  unfold RowFlow.check
  simp only [Bool.and_eq_true, List.all_eq_true, Bool.not_eq_true', List.contains_eq_mem, decide_eq_false_iff_not,
    RowFlow.closed_iff, and_assoc]

/-! ### the invariant of the heap machine -/

structure FlowInv (S : List String) (inputRefs : List Ref) (h0 : Ref → List Nat) (st : MState) : Prop where
  /-- every name bound to an input object is in the may-input set -/
  names : ∀ x r, st.env x = some r → r ∈ inputRefs → x ∈ S
  /-- input objects are unchanged -/
  heap : ∀ r ∈ inputRefs, st.heap r = h0 r
  /-- no input object was handed to a writer -/
  written : ∀ r ∈ st.written, r ∉ inputRefs
  /-- allocation never reuses an input reference -/
  below : ∀ r ∈ inputRefs, r < st.next

theorem exec_preserves (f : RowFlow) (S : List String) (hS : f.ClosedSet S)
    (hmut : ∀ x ∈ f.mutated, x ∉ S) (hwr : ∀ x ∈ f.written, x ∉ S)
    (inputRefs : List Ref) (h0 : Ref → List Nat) (st : MState) (inv : FlowInv S inputRefs h0 st)
    (s : FlowStmt) (hs : f.allows s) : FlowInv S inputRefs h0 (exec st s) := by
  obtain ⟨hn, hh, hw, hb⟩ := inv
  cases s with
  | bind x k y =>
    have hs' : (x, k, y) ∈ f.binds := hs
    cases k with
    | alias =>
      simp only [exec]
      split
      · rename_i r hy
        refine ⟨?_, hh, hw, hb⟩
        intro n r' hn' hr'
        simp only at hn'
        split at hn'
        · subst_vars
          cases hn'
          exact hS.alias _ _ hs' (hn _ _ hy hr')
        · exact hn _ _ hn' hr'
      · exact ⟨hn, hh, hw, hb⟩
    | copy =>
      simp only [exec]
      split
      · rename_i r hy
        refine ⟨?_, ?_, hw, ?_⟩
        · intro n r' hn' hr'
          simp only at hn'
          split at hn'
          · cases hn'
            exact absurd (hb _ hr') (Nat.lt_irrefl _)
          · exact hn _ _ hn' hr'
        · intro r' hr'
          have : (r' : Nat) < (st.next : Nat) := hb _ hr'
          simp only
          rw [if_neg (Nat.ne_of_lt this)]
          exact hh _ hr'
        · intro r' hr'
          have : (r' : Nat) < (st.next : Nat) := hb _ hr'
          exact Nat.lt_succ_of_lt this
      · exact ⟨hn, hh, hw, hb⟩
    | fresh =>
      simp only [exec]
      refine ⟨?_, ?_, hw, ?_⟩
      · intro n r' hn' hr'
        simp only at hn'
        split at hn'
        · cases hn'
          exact absurd (hb _ hr') (Nat.lt_irrefl _)
        · exact hn _ _ hn' hr'
      · intro r' hr'
        have : (r' : Nat) < (st.next : Nat) := hb _ hr'
        simp only
        rw [if_neg (Nat.ne_of_lt this)]
        exact hh _ hr'
      · intro r' hr'
        have : (r' : Nat) < (st.next : Nat) := hb _ hr'
        exact Nat.lt_succ_of_lt this
  | mutate x i v =>
    have hs' : x ∈ f.mutated := hs
    simp only [exec]
    split
    · rename_i r hx
      refine ⟨hn, ?_, hw, hb⟩
      intro r' hr'
      simp only
      have : r' ≠ r := by
        rintro rfl
        exact hmut _ hs' (hn _ _ hx hr')
      rw [if_neg this]
      exact hh _ hr'
    · exact ⟨hn, hh, hw, hb⟩
  | write x =>
    have hs' : x ∈ f.written := hs
    simp only [exec]
    split
    · rename_i r hx
      refine ⟨hn, hh, ?_, hb⟩
      intro r' hr'
      simp only [List.mem_cons] at hr'
      rcases hr' with rfl | hr'
      · exact fun hin => hwr _ hs' (hn _ _ hx hin)
      · exact hw _ hr'
    · exact ⟨hn, hh, hw, hb⟩

theorem execAll_preserves (f : RowFlow) (S : List String) (hS : f.ClosedSet S)
    (hmut : ∀ x ∈ f.mutated, x ∉ S) (hwr : ∀ x ∈ f.written, x ∉ S)
    (inputRefs : List Ref) (h0 : Ref → List Nat) (prog : List FlowStmt) (hprog : ∀ s ∈ prog, f.allows s)
    (st : MState) (inv : FlowInv S inputRefs h0 st) : FlowInv S inputRefs h0 (execAll st prog) := by
  induction prog generalizing st with
  | nil => exact inv
  | cons s rest ih =>
    simp only [execAll]
    exact ih (fun t ht => hprog t (List.mem_cons_of_mem _ ht)) _
      (exec_preserves f S hS hmut hwr inputRefs h0 st inv s (hprog s List.mem_cons_self))

theorem initOk_inv (f : RowFlow) (S : List String) (hS : f.ClosedSet S) (st0 : MState) (inputRefs : List Ref)
    (hinit : InitOk f st0 inputRefs) : FlowInv S inputRefs st0.heap st0 :=
  ⟨fun x r hx _ => hS.inputs x (hinit.bound x r hx).1, fun _ _ => rfl,
   fun r hr => (by rw [hinit.nothingWritten] at hr; cases hr), hinit.below⟩

/-- soundness for ANY closed set that avoids the mutated and written names (the checker's set is one) -/
theorem rowflow_sound_of_closed (f : RowFlow) (S : List String) (hS : f.ClosedSet S)
    (hmut : ∀ x ∈ f.mutated, x ∉ S) (hwr : ∀ x ∈ f.written, x ∉ S)
    (st0 : MState) (inputRefs : List Ref) (hinit : InitOk f st0 inputRefs)
    (prog : List FlowStmt) (hprog : ∀ s ∈ prog, f.allows s) :
    (∀ r ∈ inputRefs, (execAll st0 prog).heap r = st0.heap r) ∧ (∀ r ∈ (execAll st0 prog).written, r ∉ inputRefs) := by
  have := execAll_preserves f S hS hmut hwr inputRefs st0.heap prog hprog st0 (initOk_inv f S hS st0 inputRefs hinit)
  exact ⟨this.heap, this.written⟩

/-! ### the iteration: monotone, below every closed set, and closed after `binds.length` rounds -/

theorem RowFlow.mem_step (f : RowFlow) (s : List String) (x : String) :
    x ∈ f.step s ↔ x ∈ s ∨ ∃ y, (x, BindKind.alias, y) ∈ f.binds ∧ y ∈ s := by
  unfold RowFlow.step
  simp only [List.mem_append, List.mem_map, List.mem_filter, Bool.and_eq_true, beq_iff_eq,
    Bool.not_eq_true', List.contains_eq_mem, decide_eq_false_iff_not, decide_eq_true_eq]
  constructor
  · rintro (h | ⟨⟨x', k, y⟩, ⟨hb, ⟨hk, hy⟩, _⟩, rfl⟩)
    · exact Or.inl h
    · simp only at hk hy
      subst hk
      exact Or.inr ⟨y, hb, hy⟩
  · rintro (h | ⟨y, hb, hy⟩)
    · exact Or.inl h
    · by_cases hx : x ∈ s
      · exact Or.inl hx
      · exact Or.inr ⟨(x, .alias, y), ⟨hb, ⟨rfl, hy⟩, hx⟩, rfl⟩

theorem RowFlow.subset_closure (f : RowFlow) (n : Nat) (s : List String) : ∀ x ∈ s, x ∈ f.closure n s := by
  induction n generalizing s with
  | zero => intro x hx; exact hx
  | succ n ih =>
    intro x hx
    simp only [RowFlow.closure]
    exact ih _ x ((f.mem_step s x).mpr (Or.inl hx))

/-- the iteration stays below every closed set: `mayInput` is the LEAST closed set -/
theorem RowFlow.closure_least (f : RowFlow) (S : List String)
    (halias : ∀ x y, (x, BindKind.alias, y) ∈ f.binds → y ∈ S → x ∈ S)
    (n : Nat) (s : List String) (hs : ∀ x ∈ s, x ∈ S) : ∀ x ∈ f.closure n s, x ∈ S := by
  induction n generalizing s with
  | zero => exact hs
  | succ n ih =>
    simp only [RowFlow.closure]
    apply ih
    intro x hx
    rcases (f.mem_step s x).mp hx with h | ⟨y, hb, hy⟩
    · exact hs x h
    · exact halias x y hb (hs y hy)

/-- the bindings whose target is not yet in `s` (the measure of the iteration) -/
def RowFlow.pending (f : RowFlow) (s : List String) : Nat := (f.binds.filter (fun b => !s.contains b.1)).length

theorem filter_length_lt_of_witness {α} (p q : α → Bool) (l : List α) (himp : ∀ a ∈ l, q a = true → p a = true)
    (a : α) (ha : a ∈ l) (hpa : p a = true) (hqa : q a = false) : (l.filter q).length < (l.filter p).length := by
  induction l with
  | nil => cases ha
  | cons b l ih =>
    have hle : ∀ (l : List α), (∀ a ∈ l, q a = true → p a = true) → (l.filter q).length ≤ (l.filter p).length := by
      intro l
      induction l with
      | nil => intro _; simp
      | cons c l ihl =>
        intro h
        have h1 := ihl (fun a ha => h a (List.mem_cons_of_mem _ ha))
        have h2 := h c List.mem_cons_self
        simp only [List.filter_cons]
        cases hq : q c
        · cases hp : p c <;> simp <;> omega
        · simp [h2 hq]; omega
    rcases List.mem_cons.mp ha with rfl | ha'
    · have := hle l (fun a ha => himp a (List.mem_cons_of_mem _ ha))
      simp only [List.filter_cons, hpa, hqa]
      simp
      omega
    · have h1 := ih (fun a ha => himp a (List.mem_cons_of_mem _ ha)) ha'
      have h2 := himp b List.mem_cons_self
      simp only [List.filter_cons]
      cases hq : q b
      · cases hp : p b <;> simp <;> omega
      · simp [h2 hq]; omega

/-- a round either changes nothing (the set is closed under the alias bindings) or uses up a pending binding -/
theorem RowFlow.step_progress (f : RowFlow) (s : List String) :
    (∀ x y, (x, BindKind.alias, y) ∈ f.binds → y ∈ s → x ∈ s) ∨ f.pending (f.step s) < f.pending s := by
  by_cases h : ∀ x y, (x, BindKind.alias, y) ∈ f.binds → y ∈ s → x ∈ s
  · exact Or.inl h
  · right
    simp only [Classical.not_forall] at h
    obtain ⟨x, y, hb, hy, hx⟩ := h
    unfold RowFlow.pending
    apply filter_length_lt_of_witness _ _ f.binds _ (x, .alias, y) hb
    · simpa using hx
    · have : x ∈ f.step s := (f.mem_step s x).mpr (Or.inr ⟨y, hb, hy⟩)
      simpa using this
    · intro a _ ha
      simp only [Bool.not_eq_true', List.contains_eq_mem, decide_eq_false_iff_not] at ha ⊢
      exact fun hm => ha ((f.mem_step s a.1).mpr (Or.inl hm))

theorem RowFlow.closure_of_stable (f : RowFlow) (s : List String)
    (h : ∀ x y, (x, BindKind.alias, y) ∈ f.binds → y ∈ s → x ∈ s) (n : Nat) :
    ∀ x y, (x, BindKind.alias, y) ∈ f.binds → y ∈ f.closure n s → x ∈ f.closure n s := by
  intro x y hb hy
  have hy' : y ∈ s := f.closure_least s h n s (fun _ hx => hx) y hy
  exact f.subset_closure n s x (h x y hb hy')

theorem RowFlow.closure_stable (f : RowFlow) (n : Nat) (s : List String) (hn : f.pending s ≤ n) :
    ∀ x y, (x, BindKind.alias, y) ∈ f.binds → y ∈ f.closure n s → x ∈ f.closure n s := by
  induction n generalizing s with
  | zero =>
    rcases f.step_progress s with h | h
    · exact h
    · omega
  | succ n ih =>
    rcases f.step_progress s with h | h
    · exact f.closure_of_stable s h (n + 1)
    · simp only [RowFlow.closure]
      exact ih (f.step s) (by omega)

/-- the closedness conjunct of `check` always holds: `binds.length` rounds reach the fixpoint -/
theorem RowFlow.mayInput_closed (f : RowFlow) : f.ClosedSet f.mayInput := by
  refine ⟨f.subset_closure _ _, f.closure_stable _ _ ?_⟩
  unfold RowFlow.pending
  exact List.length_filter_le _ _

/-- `mayInput` is monotone in the inputs and the bindings -/
theorem RowFlow.mayInput_mono (f g : RowFlow) (hin : ∀ x ∈ g.inputs, x ∈ f.inputs) (hb : ∀ b ∈ g.binds, b ∈ f.binds) :
    ∀ x ∈ g.mayInput, x ∈ f.mayInput := by
  have hc := f.mayInput_closed
  exact g.closure_least f.mayInput (fun x y h hy => hc.alias x y (hb _ h) hy) _ _ (fun x hx => hc.inputs x (hin x hx))

theorem RowFlow.check_mono (f g : RowFlow) (hin : ∀ x ∈ g.inputs, x ∈ f.inputs) (hb : ∀ b ∈ g.binds, b ∈ f.binds)
    (hm : ∀ x ∈ g.mutated, x ∈ f.mutated) (hw : ∀ x ∈ g.written, x ∈ f.written) (hf : f.check = true) :
    g.check = true := by
  rw [RowFlow.check_iff] at hf ⊢
  obtain ⟨_, hfm, hfw⟩ := hf
  refine ⟨g.mayInput_closed, ?_, ?_⟩
  · exact fun x hx hmem => hfm x (hm x hx) (f.mayInput_mono g hin hb x hmem)
  · exact fun x hx hmem => hfw x (hw x hx) (f.mayInput_mono g hin hb x hmem)

/-! ### concrete flows, states and programs used by the examples of `Theorems/C06RowFlow.lean` -/

instance (f : RowFlow) (s : FlowStmt) : Decidable (f.allows s) := by
  cases s <;> unfold RowFlow.allows <;> infer_instance

/-- the shape of the engine's flow: `*` aliases the input row, output rows are fresh, UPDATE works on a copy -/
def c06Flow : RowFlow :=
  { inputs := ["record_a", "record_b"],
    binds := [("star_fields", .alias, "record_a"), ("star_fields", .fresh, "record_a"), ("out_fields", .fresh, "star_fields"),
              ("up_fields", .copy, "record_a"), ("mutable_record", .copy, "record")],
    mutated := ["up_fields", "out_fields", "mutable_record"],
    written := ["out_fields", "up_fields", "mutable_record"] }

/-- the seeded change "UPDATE writes into the caller's row": `up_fields = record_a` instead of `record_a[:]` -/
def c06AliasUpdateFlow : RowFlow :=
  { c06Flow with
    binds := [("star_fields", .alias, "record_a"), ("star_fields", .fresh, "record_a"), ("out_fields", .fresh, "star_fields"),
              ("up_fields", .alias, "record_a"), ("mutable_record", .copy, "record")] }

/-- `out_fields = star_fields = record_a`, and `out_fields` goes to the writer -/
def c06WrittenAliasFlow : RowFlow :=
  { inputs := ["record_a", "record_b"],
    binds := [("star_fields", .alias, "record_a"), ("out_fields", .alias, "star_fields")],
    mutated := [],
    written := ["out_fields"] }

/-- `record_a` is object 0 = [1,2,3], `record_b` is object 1 = [4,5]; nothing else exists -/
def c06State0 : MState :=
  { heap := fun r => if r = 0 then [1, 2, 3] else if r = 1 then [4, 5] else [],
    env := fun n => if n = "record_a" then some 0 else if n = "record_b" then some 1 else none,
    next := 2 }

def c06Prog : List FlowStmt :=
  [.bind "star_fields" .alias "record_a", .bind "out_fields" .fresh "star_fields", .mutate "out_fields" 0 7,
   .write "out_fields", .bind "up_fields" .copy "record_a", .mutate "up_fields" 1 9]

def c06AliasUpdateProg : List FlowStmt := [.bind "up_fields" .alias "record_a", .mutate "up_fields" 0 99]

def c06WrittenAliasProg : List FlowStmt :=
  [.bind "star_fields" .alias "record_a", .bind "out_fields" .alias "star_fields", .write "out_fields"]

theorem c06State0_initOk (f : RowFlow) (hf : f.inputs = ["record_a", "record_b"]) : InitOk f c06State0 [0, 1] := by
  refine ⟨?_, by decide, rfl⟩
  intro x r h
  simp only [c06State0] at h
  rw [hf]
  split at h
  · cases h; subst_vars; simp
  · split at h
    · cases h; subst_vars; simp
    · cases h

end Rbql
