/-
  Bridge between the operational engine model and the specification layer for AGGREGATE queries:
  the main loop accumulates the passing records of `aggEmissions` into the aggregate columns, and
  `finishAll` writes one row per distinct key in ascending key order (`aggRowsSpec`).
-/
import Rbql.Proofs.RunSelect
namespace Rbql

/-! ## (1) what one passing record does to the aggregation state -/

/-- `select_aggregated` for one passing record `(key, row, env)` -/
def aggFeed1 (q : SemQuery) (ag : Option AggState) (kr : List Val × Row × Env) :
    Except EngErr (Option AggState) :=
  match ag with
  | none =>
    (liftErr kr.2.2.nr (incrementAll ((aggColKinds q.items kr.2.2).map (fun k => ({ kind := k } : AggCol)))
      kr.1 kr.2.1)).map (fun cols => some { cols := cols, keys := [kr.1] })
  | some ag =>
    (liftErr kr.2.2.nr (incrementAll ag.cols kr.1 kr.2.1)).map (fun cols =>
      some { cols := cols, keys := if ag.keys.contains kr.1 then ag.keys else ag.keys ++ [kr.1] })

/-- the passing records, in order -/
def aggFeed (q : SemQuery) : Option AggState → List (List Val × Row × Env) → Except EngErr (Option AggState)
  | ag, [] => .ok ag
  | ag, kr :: rest => (aggFeed1 q ag kr).bind (fun ag' => aggFeed q ag' rest)

def LoopState.withAgg (st : LoopState) (ag : Option AggState) : LoopState := { st with agg := ag }

theorem aggFeed_append (q : SemQuery) (ag : Option AggState) (xs ys : List (List Val × Row × Env)) :
    aggFeed q ag (xs ++ ys) = (aggFeed q ag xs).bind (fun ag' => aggFeed q ag' ys) := by
  induction xs generalizing ag with
  | nil => rfl
  | cons x xs ih =>
    simp only [List.cons_append, aggFeed]
    cases aggFeed1 q ag x with
    | error e => rfl
    | ok ag' => exact ih ag'

/-- for an aggregate query, processing one environment = accumulating its projection (if it passes) -/
theorem processSelect_agg (q : SemQuery) (hagg : q.isAgg = true) (hx : q.exceptCols = none)
    (st : LoopState) (hf : st.chain.forbidsAggregation = false) (e : Env) :
    processSelect q st e = (projectAggEnv q e).bind (fun r => match r with
      | none => .ok st
      | some kr => (aggFeed1 q st.agg kr).map st.withAgg) := by
  unfold processSelect projectAggEnv
  simp only [hagg, hx]
  generalize liftErr e.nr (match q.where_ with | some w => w e | none => Except.ok true) = r1
  generalize liftErr e.nr (evalItems q.items e) = r2
  generalize liftErr e.nr (match q.groupBy with | some g => g e | none => Except.ok [Val.none]) = r3
  cases r1 with
  | error x => rfl
  | ok pass =>
    cases pass with
    | false => rfl
    | true =>
      cases r2 with
      | error x => rfl
      | ok rowun =>
        cases r3 with
        | error x => rfl
        | ok key =>
          obtain ⟨row, un⟩ := rowun
          simp only [bind, Except.bind, pure, Except.pure, Except.map, aggFeed1]
          cases hs : st.agg with
          | none =>
            simp only [hf, Bool.false_eq_true, if_false, Bool.not_true, if_true]
            cases liftErr e.nr (incrementAll ((aggColKinds q.items e).map (fun k => ({ kind := k } : AggCol))) key row) with
            | error x => rfl
            | ok cols => rfl
          | some ag =>
            simp only [Bool.false_eq_true, if_false, Bool.not_true, if_true]
            cases liftErr e.nr (incrementAll ag.cols key row) with
            | error x => rfl
            | ok cols => rfl

theorem withAgg_self (st : LoopState) : st.withAgg st.agg = st := by cases st; rfl

theorem projectAggEnvs_cons_ok {q : SemQuery} {e : Env} {es : List Env} {out : List (List Val × Row × Env)}
    (h : projectAggEnvs q (e :: es) = .ok out) :
    ∃ hd tl, projectAggEnv q e = .ok hd ∧ projectAggEnvs q es = .ok tl ∧ out = hd.toList ++ tl := by
  simp only [projectAggEnvs] at h
  cases h1 : projectAggEnv q e with
  | error x => simp [h1, bind, Except.bind] at h
  | ok hd =>
    cases h2 : projectAggEnvs q es with
    | error x => simp [h1, h2, bind, Except.bind] at h
    | ok tl =>
      simp only [h1, h2, bind, Except.bind, pure, Except.pure, Except.ok.injEq] at h
      refine ⟨hd, tl, rfl, rfl, ?_⟩
      cases hd <;> simp_all

/-- one environment, then the rest: the state after an (optional) passing record -/
theorem processSelect_agg_ok (q : SemQuery) (hagg : q.isAgg = true) (hx : q.exceptCols = none)
    (st : LoopState) (hf : st.chain.forbidsAggregation = false) (e : Env)
    (hd : Option (List Val × Row × Env)) (tl : List (List Val × Row × Env))
    (h1 : projectAggEnv q e = .ok hd) (ag' : Option AggState)
    (hfeed : aggFeed q st.agg (hd.toList ++ tl) = .ok ag') :
    ∃ ag1, processSelect q st e = .ok (st.withAgg ag1) ∧ aggFeed q ag1 tl = .ok ag' := by
  rw [processSelect_agg q hagg hx st hf e, h1]
  cases hd with
  | none =>
    refine ⟨st.agg, ?_, by simpa using hfeed⟩
    simp [Except.bind, withAgg_self]
  | some kr =>
    simp only [Option.toList_some, List.cons_append, List.nil_append, aggFeed] at hfeed
    cases h2 : aggFeed1 q st.agg kr with
    | error x => simp [h2, Except.bind] at hfeed
    | ok ag1 =>
      rw [h2] at hfeed
      exact ⟨ag1, by simp [Except.bind, h2, Except.map], hfeed⟩

/-- `processMatches` over the environments of one record, when nothing fails -/
theorem processMatches_agg (q : SemQuery) (hagg : q.isAgg = true) (hx : q.exceptCols = none)
    (nr : Nat) (recA : Row) (ms : List (Option Nat × Row)) (st : LoopState) (hnu : st.nu = 0)
    (hstop : st.stop = false) (hf : st.chain.forbidsAggregation = false)
    (out : List (List Val × Row × Env)) (h : projectAggEnvs q (ms.map (matchEnv nr recA)) = .ok out)
    (ag' : Option AggState) (hfeed : aggFeed q st.agg out = .ok ag') :
    processMatches q nr recA st ms = .ok (st.withAgg ag') := by
  induction ms generalizing st out with
  | nil =>
    simp only [List.map_nil, projectAggEnvs, Except.ok.injEq] at h
    subst h
    simp only [aggFeed, Except.ok.injEq] at hfeed
    subst hfeed
    simp [processMatches, withAgg_self]
  | cons m rest ih =>
    obtain ⟨bnr, recB⟩ := m
    obtain ⟨hd, tl, h1, h2, rfl⟩ := projectAggEnvs_cons_ok h
    obtain ⟨ag1, hsel, hrest⟩ := processSelect_agg_ok q hagg hx st hf
      { nr := nr, a := recA, bnr := bnr, b := some recB, nu := st.nu } hd tl
      (by rw [hnu]; exact h1) ag' hfeed
    simp only [processMatches, hsel, bind, Except.bind]
    have hs : (st.withAgg ag1).stop = false := hstop
    simp only [hs, Bool.false_eq_true, if_false]
    exact ih (st.withAgg ag1) hnu hstop hf tl h2 hrest

theorem stepRecord_agg (q : SemQuery) (B : Table) (jm : JoinMap)
    (hsel : q.isUpdate = false) (hagg : q.isAgg = true) (hx : q.exceptCols = none)
    (hjm : ∀ js, q.join = some js → (jm.maxLen = nullWidth js B ∧
        ∀ key, jm.get key = (partnersSpec js.rhs B key).map (fun p => (p.1, p.2.length, p.2))))
    (st : LoopState) (hnu : st.nu = 0) (hstop : st.stop = false)
    (hf : st.chain.forbidsAggregation = false) (nr : Nat) (recA : Row)
    (envs : List Env) (out : List (List Val × Row × Env))
    (he : expandRecord q B nr recA = .ok envs) (hp : projectAggEnvs q envs = .ok out)
    (ag' : Option AggState) (hfeed : aggFeed q st.agg out = .ok ag') :
    stepRecord q jm st nr recA = .ok (st.withAgg ag') := by
  unfold stepRecord
  simp only [hsel, Bool.false_eq_true, if_false]
  cases hj : q.join with
  | none =>
    simp only [expandRecord, hj, Except.ok.injEq] at he
    subst he
    obtain ⟨hd, tl, h1, h2, rfl⟩ := projectAggEnvs_cons_ok hp
    simp only [projectAggEnvs, Except.ok.injEq] at h2
    subst h2
    obtain ⟨ag1, hs, hrest⟩ := processSelect_agg_ok q hagg hx st hf
      { nr := nr, a := recA, nu := st.nu } hd [] (by rw [hnu]; exact h1) ag' hfeed
    simp only [aggFeed, Except.ok.injEq] at hrest
    subst hrest
    exact hs
  | some js =>
    rw [expandRecord_join q B jm js hj (hjm js hj)] at he
    simp only
    cases h1 : liftErr nr (lhsKey js.lhs nr recA) with
    | error x => simp [h1, bind, Except.bind] at he
    | ok key =>
      cases h2 : liftErr nr (getRhs js.kind jm key) with
      | error x => simp [h1, h2, bind, Except.bind] at he
      | ok ms =>
        simp only [h1, h2, bind, Except.bind, pure, Except.pure, Except.ok.injEq] at he
        subst he
        simp only [bind, Except.bind, h2]
        exact processMatches_agg q hagg hx nr recA ms st hnu hstop hf out hp ag' hfeed

theorem aggEmissions_cons_ok {q : SemQuery} {B : Table} {recA : Row} {rest : Table} {nr : Nat}
    {es : List (List Val × Row × Env)} (h : aggEmissions q B (recA :: rest) nr = .ok es) :
    ∃ envs hd tl, expandRecord q B (nr + 1) recA = .ok envs ∧ projectAggEnvs q envs = .ok hd ∧
      aggEmissions q B rest (nr + 1) = .ok tl ∧ es = hd ++ tl := by
  simp only [aggEmissions] at h
  cases h0 : expandRecord q B (nr + 1) recA with
  | error x => simp [h0, bind, Except.bind] at h
  | ok envs =>
    cases h1 : projectAggEnvs q envs with
    | error x => simp [h0, h1, bind, Except.bind] at h
    | ok hd =>
      cases h2 : aggEmissions q B rest (nr + 1) with
      | error x => simp [h0, h1, h2, bind, Except.bind] at h
      | ok tl =>
        simp only [h0, h1, h2, bind, Except.bind, pure, Except.pure, Except.ok.injEq] at h
        exact ⟨envs, hd, tl, rfl, h1, rfl, h.symm⟩

/-- the main loop of an aggregate query accumulates the passing records; no write happens, so the
loop never stops early and the writer chain is untouched -/
theorem mainLoop_agg (q : SemQuery) (B : Table) (jm : JoinMap)
    (hsel : q.isUpdate = false) (hagg : q.isAgg = true) (hx : q.exceptCols = none)
    (hjm : ∀ js, q.join = some js → (jm.maxLen = nullWidth js B ∧
        ∀ key, jm.get key = (partnersSpec js.rhs B key).map (fun p => (p.1, p.2.length, p.2))))
    (A : Table) (nr : Nat) (st : LoopState) (hnu : st.nu = 0) (hstop : st.stop = false)
    (hf : st.chain.forbidsAggregation = false)
    (krs : List (List Val × Row × Env)) (hk : aggEmissions q B A nr = .ok krs)
    (ag' : Option AggState) (hfeed : aggFeed q st.agg krs = .ok ag') :
    mainLoop q jm A nr st = .ok (st.withAgg ag', nr + A.length) := by
  induction A generalizing nr st krs with
  | nil =>
    simp only [aggEmissions, Except.ok.injEq] at hk
    subst hk
    simp only [aggFeed, Except.ok.injEq] at hfeed
    subst hfeed
    simp [mainLoop, withAgg_self]
  | cons recA rest ih =>
    obtain ⟨envs, hd, tl, he, hp, ht, rfl⟩ := aggEmissions_cons_ok hk
    rw [aggFeed_append] at hfeed
    cases h1 : aggFeed q st.agg hd with
    | error x => simp [h1, Except.bind] at hfeed
    | ok ag1 =>
      rw [h1] at hfeed
      have hstep := stepRecord_agg q B jm hsel hagg hx hjm st hnu hstop hf (nr + 1) recA envs hd he hp ag1 h1
      simp only [mainLoop, hstop, Bool.false_eq_true, if_false, hstep]
      rw [ih (nr + 1) (st.withAgg ag1) hnu hstop hf tl ht hfeed]
      simp only [List.length_cons, LoopState.withAgg]
      congr 2
      omega

/-! ## (2) the columns: record by record = column by column -/

/-- all columns fed with the passing records, record by record (what the loop does) -/
def foldAll : List AggCol → List (List Val × Row × Env) → Except ErrKind (List AggCol)
  | cols, [] => .ok cols
  | cols, kr :: rest => (incrementAll cols kr.1 kr.2.1).bind (fun cols' => foldAll cols' rest)

/-- `aggregation_keys` bookkeeping of the loop -/
def addKeys : List (List Val) → List (List Val) → List (List Val)
  | keys, [] => keys
  | keys, k :: ks => addKeys (if keys.contains k then keys else keys ++ [k]) ks

theorem aggFeed_some (q : SemQuery) (krs : List (List Val × Row × Env)) (cols : List AggCol)
    (keys : List (List Val)) (out : List AggCol) (h : foldAll cols krs = .ok out) :
    aggFeed q (some { cols := cols, keys := keys }) krs =
      .ok (some { cols := out, keys := addKeys keys (krs.map (·.1)) }) := by
  induction krs generalizing cols keys with
  | nil =>
    simp only [foldAll, Except.ok.injEq] at h
    subst h
    rfl
  | cons kr rest ih =>
    simp only [foldAll] at h
    cases h1 : incrementAll cols kr.1 kr.2.1 with
    | error x => simp [h1, Except.bind] at h
    | ok cols' =>
      rw [h1] at h
      simp only [aggFeed, aggFeed1, h1, liftErr, Except.map, Except.bind, List.map_cons, addKeys]
      exact ih cols' _ h

theorem aggFeed_none (q : SemQuery) (kr : List Val × Row × Env) (rest : List (List Val × Row × Env))
    (out : List AggCol)
    (h : foldAll ((aggColKinds q.items kr.2.2).map (fun k => ({ kind := k } : AggCol))) (kr :: rest) = .ok out) :
    aggFeed q none (kr :: rest) =
      .ok (some { cols := out, keys := addKeys [kr.1] (rest.map (·.1)) }) := by
  simp only [foldAll] at h
  cases h1 : incrementAll ((aggColKinds q.items kr.2.2).map (fun k => ({ kind := k } : AggCol))) kr.1 kr.2.1 with
  | error x => simp [h1, Except.bind] at h
  | ok cols' =>
    rw [h1] at h
    simp only [aggFeed, aggFeed1, h1, liftErr, Except.map, Except.bind]
    exact aggFeed_some q rest cols' _ out h

theorem addKeys_eq (ks keys : List (List Val)) :
    addKeys keys ks = keys ++ (distinctKeys ks).filter (fun x => decide (x ∉ keys)) := by
  induction ks generalizing keys with
  | nil => simp [addKeys, distinctKeys]
  | cons k ks ih =>
    rw [addKeys, distinctKeys, ih]
    by_cases hk : k ∈ keys
    · simp only [List.contains_iff_mem, hk, if_true, List.filter_cons, not_true, decide_false,
        Bool.false_eq_true, if_false, List.filter_filter]
      congr 1
      apply List.filter_congr
      intro x _
      by_cases hx : x ∈ keys <;> simp [hx]
      intro hxk; exact hx (hxk ▸ hk)
    · simp only [List.contains_iff_mem, hk, if_false, List.filter_cons, not_false_eq_true, decide_true,
        if_true, List.filter_filter, List.append_assoc, List.cons_append, List.nil_append]
      congr 2
      apply List.filter_congr
      intro x _
      simp [List.mem_append, Bool.and_comm]

theorem addKeys_singleton (k : List Val) (ks : List (List Val)) :
    addKeys [k] ks = distinctKeys (k :: ks) := by
  rw [addKeys_eq, distinctKeys]
  simp

theorem incrementAll_nil (key : List Val) (row : Row) : incrementAll [] key row = .ok [] := by
  rw [incrementAll.eq_def]

theorem mapM_foldIncr_nil (cols : List AggCol) (n : Nat) :
    (cols.zipIdx n).mapM (fun p => foldIncr p.1 []) = .ok cols := by
  induction cols generalizing n with
  | nil => rfl
  | cons c cs ih =>
    rw [List.zipIdx_cons, List.mapM_cons, ih]
    rfl

/-- one record: if every column folds over `(key, row[i]) :: F i`, then `incrementAll` succeeds on the
record and the new columns fold over `F i` to the same result -/
theorem incrementAll_step (key : List Val) (row : Row) (F : Nat → List (List Val × Val))
    (cols : List AggCol) (n : Nat) (out : List AggCol)
    (hlen : (row.drop n).length = cols.length)
    (h : (cols.zipIdx n).mapM (fun p => foldIncr p.1 ((key, row.getD p.2 Val.none) :: F p.2)) = .ok out) :
    ∃ cols', incrementAll cols key (row.drop n) = .ok cols' ∧ cols'.length = cols.length ∧
      (cols'.zipIdx n).mapM (fun p => foldIncr p.1 (F p.2)) = .ok out := by
  induction cols generalizing n out with
  | nil =>
    simp only [List.zipIdx_nil, List.mapM_nil, pure, Except.pure, Except.ok.injEq] at h
    subst h
    exact ⟨[], incrementAll_nil _ _, rfl, rfl⟩
  | cons c cs ih =>
    have hn : n < row.length := by
      simp only [List.length_drop, List.length_cons] at hlen; omega
    have hdrop : row.drop n = row[n] :: row.drop (n + 1) := List.drop_eq_getElem_cons hn
    have hget : row.getD n Val.none = row[n] := by simp [List.getD_eq_getElem?_getD, hn]
    simp only [List.zipIdx_cons, List.mapM_cons] at h
    cases h3 : (cs.zipIdx (n + 1)).mapM
        (fun p => foldIncr p.1 ((key, row.getD p.2 Val.none) :: F p.2)) with
    | error x =>
      rw [h3] at h
      simp only [foldIncr, bind, Except.bind] at h
      split at h <;> first | contradiction | (split at h <;> contradiction)
    | ok outs =>
      rw [h3] at h
      simp only [foldIncr, hget] at h
      cases h1 : c.increment key row[n] with
      | error x => simp [h1, bind, Except.bind] at h
      | ok c' =>
        cases h2 : foldIncr c' (F n) with
        | error x => simp [h1, h2, bind, Except.bind] at h
        | ok o1 =>
          simp only [h1, h2, bind, Except.bind, pure, Except.pure, Except.ok.injEq] at h
          subst h
          have hlen' : (row.drop (n + 1)).length = cs.length := by
            simp only [List.length_drop, List.length_cons] at hlen ⊢; omega
          obtain ⟨cs', hi1, hi2, hi3⟩ := ih (n + 1) outs hlen' h3
          refine ⟨c' :: cs', ?_, by simp [hi2], ?_⟩
          · rw [hdrop]
            simp only [incrementAll, h1, hi1, bind, Except.bind, pure, Except.pure]
          · simp only [List.zipIdx_cons, List.mapM_cons, h2, hi3, bind, Except.bind, pure, Except.pure]

/-- if every column folds successfully over its own values of all records (`aggRowsSpec`), then the
record-by-record accumulation of the loop succeeds with the same columns -/
theorem foldAll_of_columns (krs : List (List Val × Row × Env)) (cols : List AggCol) (out : List AggCol)
    (hw : ∀ kr ∈ krs, kr.2.1.length = cols.length)
    (h : cols.zipIdx.mapM (fun p =>
      foldIncr p.1 (krs.map (fun kr => (kr.1, kr.2.1.getD p.2 Val.none)))) = .ok out) :
    foldAll cols krs = .ok out := by
  induction krs generalizing cols with
  | nil =>
    simp only [List.map_nil, mapM_foldIncr_nil, Except.ok.injEq] at h
    subst h
    rfl
  | cons kr rest ih =>
    simp only [List.map_cons] at h
    obtain ⟨cols', h1, h2, h3⟩ := incrementAll_step kr.1 kr.2.1
      (fun i => rest.map (fun kr => (kr.1, kr.2.1.getD i Val.none))) cols 0 out
      (by simpa using hw kr List.mem_cons_self) h
    simp only [List.drop_zero] at h1
    simp only [foldAll, h1, Except.bind]
    exact ih cols' (fun kr' hkr' => by rw [h2]; exact hw kr' (List.mem_cons_of_mem _ hkr')) h3

theorem mapM_kinds (kinds : List (Option AggKind)) (n : Nat) (G : AggCol → Nat → Except ErrKind AggCol) :
    (kinds.zipIdx n).mapM (fun p => G { kind := p.1 } p.2) =
      ((kinds.map (fun k => ({ kind := k } : AggCol))).zipIdx n).mapM (fun p => G p.1 p.2) := by
  induction kinds generalizing n with
  | nil => rfl
  | cons k ks ih => simp only [List.map_cons, List.zipIdx_cons, List.mapM_cons, ih]

/-! ## (3) `finishAll`, `run` -/

theorem Chain.feed_eq_feedStop (c : Chain) (rows : List Row) :
    c.feed rows = (c.feedStop (rows.map (fun r => (([] : List Val), r)))).1 := by
  induction rows generalizing c with
  | nil => rfl
  | cons r rs ih =>
    rw [Chain.feed, List.map_cons, Chain.feedStop]
    rcases hw : c.write [] r with ⟨c', ok⟩
    cases ok
    · simp
    · simp only [if_true]
      exact ih c'

theorem buildChain_allows_agg (q : SemQuery) (sink : Sink) (hsel : q.isUpdate = false)
    (ho : q.orderBy = none) (hd : q.distinct = .no) :
    (buildChain q sink).forbidsAggregation = false := by
  simp [buildChain, hsel, ho, hd, Chain.forbidsAggregation]

/-- feeding the aggregated rows to the chain `TopWriter?(user writer)` and finishing it -/
theorem feed_finish_rows (q : SemQuery) (hsel : q.isUpdate = false) (ho : q.orderBy = none)
    (hd : q.distinct = .no) (rows : List Row) :
    (((buildChain q {}).feed rows).finish).getSink.rows.reverse = truncSpec q.top rows := by
  rw [Chain.feed_eq_feedStop, chain_select_spec q hsel _ {} rfl]
  simp [selectSpec, dedupSpec, orderSpec, ho, hd, List.map_map, Function.comp_def]

theorem finishAll_agg (q : SemQuery) (hsel : q.isUpdate = false) (ho : q.orderBy = none)
    (hd : q.distinct = .no) (ag : Option AggState) :
    (finishAll (({ chain := buildChain q {} } : LoopState).withAgg ag)).getSink.rows.reverse =
      match ag with
      | none => []
      | some ag => truncSpec q.top ((ag.keys.mergeSort keyLe).map (fun k =>
          ag.cols.map (fun c => ((lookupAcc c.stats k).map Acc.final).getD Val.none))) := by
  cases ag with
  | none =>
    have := feed_finish_rows q hsel ho hd []
    simp only [finishAll, LoopState.withAgg]
    rw [show (buildChain q {}).feed [] = buildChain q {} from rfl] at this
    rw [this]
    cases q.top <;> simp [truncSpec]
  | some ag =>
    simp only [finishAll, LoopState.withAgg]
    exact feed_finish_rows q hsel ho hd _

/-- `run` unfolded for a SELECT without ORDER BY (GROUP BY allowed) -/
theorem run_unfold_agg (q : SemQuery) (A B : Table) (hsel : q.isUpdate = false) (ho : q.orderBy = none)
    (hjb : ∀ js, q.join = some js → joinBError js.rhs B = none) :
    ∃ jm, run q A B = runWith q A B jm ∧
      ∀ js, q.join = some js → (jm.maxLen = nullWidth js B ∧
        ∀ key, jm.get key = (partnersSpec js.rhs B key).map (fun p => (p.1, p.2.length, p.2))) := by
  cases hj : q.join with
  | none =>
    refine ⟨{}, ?_, fun js h => by cases h⟩
    unfold run runWith
    simp only [ho, hsel, hj, Option.isSome_none, Bool.or_self, Bool.and_false, Bool.false_eq_true, if_false]
    cases h : mainLoop q {} A 0 { chain := buildChain q {} } with
    | error p => obtain ⟨e, st, n⟩ := p; rfl
    | ok p => obtain ⟨st, n⟩ := p; simp
  | some js =>
    obtain ⟨jm, h1, h2, h3⟩ := joinMap_build_ok js.rhs B (hjb js hj)
    refine ⟨jm.widen js.nullWidth, ?_, fun js' h => by
      cases h; exact ⟨by simp only [JoinMap.widen, nullWidth, h2], h3⟩⟩
    unfold run runWith
    simp only [ho, hsel, hj, Option.isSome_none, Bool.or_self, Bool.and_false, Bool.false_eq_true, if_false, h1, Except.map]
    cases h : mainLoop q (jm.widen js.nullWidth) A 0 { chain := buildChain q {} } with
    | error p => obtain ⟨e, st, n⟩ := p; rfl
    | ok p => obtain ⟨st, n⟩ := p; simp

/-- the aggregation state the loop ends with, when every column fold of `aggRowsSpec` succeeds -/
theorem aggFeed_of_spec (q : SemQuery) (kr0 : List Val × Row × Env) (rest : List (List Val × Row × Env))
    (hw : ∀ kr ∈ kr0 :: rest, kr.2.1.length = (aggColKinds q.items kr0.2.2).length)
    (cols : List AggCol)
    (hc : ((aggColKinds q.items kr0.2.2).zipIdx).mapM (fun p =>
      foldIncr { kind := p.1 } ((kr0 :: rest).map (fun kr => (kr.1, kr.2.1.getD p.2 Val.none)))) = .ok cols) :
    aggFeed q none (kr0 :: rest) =
      .ok (some { cols := cols, keys := distinctKeys ((kr0 :: rest).map (·.1)) }) := by
  rw [mapM_kinds (aggColKinds q.items kr0.2.2) 0
    (fun c i => foldIncr c ((kr0 :: rest).map (fun kr => (kr.1, kr.2.1.getD i Val.none))))] at hc
  have hfa := foldAll_of_columns (kr0 :: rest) _ cols
    (fun kr hkr => by rw [List.length_map]; exact hw kr hkr) hc
  rw [aggFeed_none q kr0 rest cols hfa, addKeys_singleton, List.map_cons]

/-- Master theorem for aggregate queries: one exact result row per group, in ascending key order. -/
theorem run_agg_eq_spec (q : SemQuery) (A B : Table)
    (hsel : q.isUpdate = false) (hagg : q.isAgg = true) (ho : q.orderBy = none) (hd : q.distinct = .no)
    (hx : q.exceptCols = none)
    (hjb : ∀ js, q.join = some js → joinBError js.rhs B = none)
    (krs : List (List Val × Row × Env)) (hk : aggEmissions q B A 0 = .ok krs)
    (hw : ∀ kr ∈ krs, ∀ kr0 ∈ krs.head?, kr.2.1.length = (aggColKinds q.items kr0.2.2).length)
    (rows : List Row) (hr : aggRowsSpec q krs = .ok rows) :
    (run q A B).error = none ∧ (run q A B).rows = rows := by
  obtain ⟨jm, hrun, hchar⟩ := run_unfold_agg q A B hsel ho hjb
  have hf := buildChain_allows_agg q {} hsel ho hd
  -- the aggregation state at the end of the loop
  have hfeed : ∃ ag', aggFeed q none krs = .ok ag' ∧
      (match ag' with
        | none => []
        | some ag => truncSpec q.top ((ag.keys.mergeSort keyLe).map (fun k =>
            ag.cols.map (fun c => ((lookupAcc c.stats k).map Acc.final).getD Val.none)))) = rows := by
    cases krs with
    | nil =>
      simp only [aggRowsSpec, Except.ok.injEq] at hr
      exact ⟨none, rfl, hr⟩
    | cons kr0 rest =>
      obtain ⟨k0, r0, e0⟩ := kr0
      simp only [aggRowsSpec] at hr
      cases hc : ((aggColKinds q.items e0).zipIdx).mapM (fun p =>
          foldIncr { kind := p.1 } (((k0, r0, e0) :: rest).map (fun kr => (kr.1, kr.2.1.getD p.2 Val.none)))) with
      | error x => rw [hc] at hr; simp [bind, Except.bind] at hr
      | ok cols =>
        simp only [hc, bind, Except.bind, pure, Except.pure, Except.ok.injEq] at hr
        refine ⟨_, aggFeed_of_spec q (k0, r0, e0) rest
          (fun kr hkr => hw kr hkr (k0, r0, e0) (by simp)) cols hc, ?_⟩
        exact hr
  obtain ⟨ag', hfd, hrows⟩ := hfeed
  have hml := mainLoop_agg q B jm hsel hagg hx hchar A 0 { chain := buildChain q {} } rfl rfl hf
    krs hk ag' hfd
  rw [hrun]
  unfold runWith
  rw [hml]
  refine ⟨rfl, ?_⟩
  show (finishAll _).getSink.rows.reverse = rows
  rw [finishAll_agg q hsel ho hd ag', hrows]

end Rbql
