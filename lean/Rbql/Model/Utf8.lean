/-
  Byte level of the JavaScript stream reader: the fatal streaming UTF-8 decoder that
  `rbql_csv.js` puts in front of the line splitter
  (`new util.TextDecoder('utf-8', {fatal: true, ignoreBOM: true})`,
  `decoder.decode(chunk, {stream: true})` per chunk in `process_data_stream_chunk`,
  `decoder.decode()` (flush) in `process_data_stream_end`; a `TypeError` of the decoder becomes an
  `RbqlIOHandlingError`).  The decoder is the WHATWG "UTF-8 decoder" (Encoding Standard §8.1.1):
  a lead byte fixes the number of continuation bytes and the allowed range of the FIRST
  continuation byte (`lower boundary` / `upper boundary`); the other continuation bytes are 80..BF.
  No BOM handling here (`ignoreBOM: true`; `removeBom` in the reader model does it).
  IMPORT-FREE (core Lean only), executable; all recursion is structural (fuel = input length).
-/
import Rbql.Model.Basic
namespace Rbql

abbrev Bytes := List UInt8

/-- result of looking for ONE code point at the head of a byte list -/
inductive DecStep where
  | ok (c : Char) (rest : Bytes)   -- a complete valid sequence; `rest` are the bytes after it
  | incomplete                     -- the bytes present are a proper prefix of a valid sequence
  | invalid                        -- no valid sequence starts with the bytes present
  deriving Repr, DecidableEq

/-- the continuation bytes of one sequence: `k` bytes still needed, `acc` the code point bits read so
far, `lo..hi` the allowed range of the next byte (WHATWG: `lower boundary`, `upper boundary`; both
are reset to 80..BF after the first continuation byte) -/
def decodeCont : Nat → Nat → Nat → Nat → Bytes → DecStep
  | 0, acc, _, _, r => .ok (Char.ofNat acc) r
  | _ + 1, _, _, _, [] => .incomplete
  | k + 1, acc, lo, hi, b :: r =>
    if lo ≤ b.toNat ∧ b.toNat ≤ hi then decodeCont k (acc * 64 + (b.toNat - 0x80)) 0x80 0xBF r
    else .invalid

/-- decode ONE code point at the head of a byte list, as the WHATWG UTF-8 decoder with `fatal: true`
decides it: 00..7F is itself; C2..DF starts a 2-byte sequence (C0, C1 would be over-long);
E0..EF a 3-byte sequence (E0 needs A0..BF next: shortest form; ED needs 80..9F next: no surrogates);
F0..F4 a 4-byte sequence (F0 needs 90..BF next: shortest form; F4 needs 80..8F next: at most U+10FFFF);
80..C1 and F5..FF cannot start a sequence. -/
def decodeOne : Bytes → DecStep
  | [] => .incomplete
  | b :: r =>
    let n := b.toNat
    if n ≤ 0x7F then .ok (Char.ofNat n) r
    else if 0xC2 ≤ n ∧ n ≤ 0xDF then decodeCont 1 (n - 0xC0) 0x80 0xBF r
    else if 0xE0 ≤ n ∧ n ≤ 0xEF then
      decodeCont 2 (n - 0xE0) (if n = 0xE0 then 0xA0 else 0x80) (if n = 0xED then 0x9F else 0xBF) r
    else if 0xF0 ≤ n ∧ n ≤ 0xF4 then
      decodeCont 3 (n - 0xF0) (if n = 0xF0 then 0x90 else 0x80) (if n = 0xF4 then 0x8F else 0xBF) r
    else .invalid

/-- whole-input decoding (`fuel` ≥ number of bytes): error iff some sequence is invalid or the
input ends inside a sequence -/
def decodeAllFuel : Nat → Bytes → Except Unit Str
  | _, [] => .ok []
  | 0, _ :: _ => .error ()                   -- not reached when fuel ≥ length
  | fuel + 1, b :: r =>
    match decodeOne (b :: r) with
    | .ok c rest =>
      (match decodeAllFuel fuel rest with
       | .ok s => .ok (c :: s)
       | .error _ => .error ())
    | .incomplete => .error ()
    | .invalid => .error ()

def decodeAll (bs : Bytes) : Except Unit Str := decodeAllFuel bs.length bs

/-- greedy decoding that stops in front of an incomplete sequence: the decoded text and the
undecoded tail; error on an invalid sequence -/
def decodeGreedyFuel : Nat → Bytes → Except Unit (Str × Bytes)
  | _, [] => .ok ([], [])
  | 0, b :: r => .ok ([], b :: r)            -- not reached when fuel ≥ length
  | fuel + 1, b :: r =>
    match decodeOne (b :: r) with
    | .ok c rest =>
      (match decodeGreedyFuel fuel rest with
       | .ok (s, p) => .ok (c :: s, p)
       | .error _ => .error ())
    | .incomplete => .ok ([], b :: r)
    | .invalid => .error ()

/-- `decoder.decode(chunk, {stream: true})`: `pending` = undecoded tail of the earlier chunks (a
proper prefix of a valid sequence); gives the text decoded by this call and the new pending bytes -/
def decodeChunk (pending chunk : Bytes) : Except Unit (Str × Bytes) :=
  decodeGreedyFuel (pending ++ chunk).length (pending ++ chunk)

/-- all chunks, then the flush `decoder.decode()`: error if bytes are still pending -/
def decodeStreamAux : Bytes → List Bytes → Except Unit (List Str)
  | pending, [] => if pending = [] then .ok [] else .error ()
  | pending, ch :: chs =>
    match decodeChunk pending ch with
    | .error _ => .error ()
    | .ok (s, p) =>
      (match decodeStreamAux p chs with
       | .ok pieces => .ok (s :: pieces)
       | .error _ => .error ())

/-- rbql-js stream path: one decoded piece per chunk (the argument of the line splitting in
`process_data_stream_chunk`), or the decoding error -/
def decodeStream (chunks : List Bytes) : Except Unit (List Str) := decodeStreamAux [] chunks

end Rbql
