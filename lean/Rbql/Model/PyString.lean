/-
  Column names as Python string literals: model of `python_string_escape_column_name` and of the
  evaluation of a Python short string literal, for the escape sequences the former can produce.
  IMPORT-FREE, executable.
-/
import Rbql.Model.Basic
namespace Rbql

def BSLASH : Char := '\\'
def TAB : Char := '\t'
def SQUOTE : Char := '\''

/-- `python_string_escape_column_name(column_name, quote_char)`: the five `replace` calls, which commute into one pass
because backslashes are doubled first and every later replacement introduces exactly one backslash -/
def pyEscape (q : Char) : Str → Str
  | [] => []
  | c :: cs =>
    (if c = BSLASH then [BSLASH, BSLASH]
     else if c = LF then [BSLASH, 'n']
     else if c = CR then [BSLASH, 'r']
     else if c = TAB then [BSLASH, 't']
     else if c = q then [BSLASH, q]
     else [c]) ++ pyEscape q cs

/-- value of the body of a short string literal delimited by `q`: `none` when the body is not a complete
literal body (a bare delimiter or line break inside) or uses an escape outside this model -/
def pyEvalBody (q : Char) : Str → Option Str
  | [] => some []
  | [c] => if c = BSLASH ∨ c = q ∨ c = LF ∨ c = CR then none else some [c]
  | c :: d :: cs =>
    if c = BSLASH then
      (if d = BSLASH then (pyEvalBody q cs).map (BSLASH :: ·)
       else if d = 'n' then (pyEvalBody q cs).map (LF :: ·)
       else if d = 'r' then (pyEvalBody q cs).map (CR :: ·)
       else if d = 't' then (pyEvalBody q cs).map (TAB :: ·)
       else if d = QUOTE then (pyEvalBody q cs).map (QUOTE :: ·)
       else if d = SQUOTE then (pyEvalBody q cs).map (SQUOTE :: ·)
       else none)
    else if c = q ∨ c = LF ∨ c = CR then none
    else (pyEvalBody q (d :: cs)).map (c :: ·)

/-- position of a name in the header: what `a["name"]`, `a.name` and (direct mode) `name` are bound to -/
def columnIndex (names : List Str) (name : Str) : Option Nat :=
  (names.zipIdx.find? (fun p => p.1 == name)).map (·.2)

end Rbql
