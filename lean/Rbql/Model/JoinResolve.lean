/-
  From clause text to the abstract query: `resolve_join_variables` (which key columns / record numbers an ON clause names)
  and `translate_except_expression` (which columns EXCEPT drops), over the variable maps of `Model/Variables.lean`.
  The results are exactly the `lhs` / `rhs` lists of `JoinSpec` and the `exceptCols` of `SemQuery` (Model/Engine.lean).
  IMPORT-FREE, executable.
-/
import Rbql.Model.Variables
namespace Rbql

inductive JoinResolveErr
  | ambiguous (v : Str)          -- the name is a variable of both tables
  | noInputField (v : Str)       -- 'Input table does not have field …'
  | noJoinField (v : Str)        -- 'Join table does not have field …'
  deriving DecidableEq, Repr

def VarMap.has (m : VarMap) (k : Str) : Bool := (m.get? k).isSome

def isLhsRecordNumber (v : Str) : Bool := v == "NR".toList || v == "a.NR".toList || v == "aNR".toList
def isRhsRecordNumber (v : Str) : Bool := v == "bNR".toList || v == "b.NR".toList

/-- one `x == y` pair of the ON clause: `none` = the record number, `some i` = field index -/
def resolveJoinPair (inMap joinMap : VarMap) (lits : List Str) (p : Str × Str) : Except JoinResolveErr (Option Nat × Option Nat) :=
  let v1 := combineLiterals p.1 lits
  let v2 := combineLiterals p.2 lits
  if inMap.has v1 && joinMap.has v1 then .error (.ambiguous v1)
  else if inMap.has v2 && joinMap.has v2 then .error (.ambiguous v2)
  else
    let (v1, v2) := if inMap.has v2 then (v2, v1) else (v1, v2)      -- the sides may be written either way round
    match (if isLhsRecordNumber v1 then some none else (inMap.get? v1).map (fun i => some i.index)) with
    | none => .error (.noInputField v1)
    | some l =>
      match (if isRhsRecordNumber v2 then some none else (joinMap.get? v2).map (fun i => some i.index)) with
      | none => .error (.noJoinField v2)
      | some r => .ok (l, r)

/-- `resolve_join_variables`: the key lists of `JoinSpec` -/
def resolveJoinVariables (inMap joinMap : VarMap) (lits : List Str) (pairs : List (Str × Str)) :
    Except JoinResolveErr (List (Option Nat) × List (Option Nat)) :=
  (pairs.mapM (resolveJoinPair inMap joinMap lits)).map (fun l => (l.map (·.1), l.map (·.2)))

inductive ExceptErr
  | unknownField (v : Str)       -- 'Unknown field in EXCEPT expression: …'
  deriving DecidableEq, Repr

/-- insertion sort of indices (`sorted(skip_indices)` / `sort((a, b) => a - b)`) -/
def insertNat (x : Nat) : List Nat → List Nat
  | [] => [x]
  | y :: ys => if x ≤ y then x :: y :: ys else y :: insertNat x ys

def sortNats (l : List Nat) : List Nat := l.foldr insertNat []

/-- `translate_except_expression`: the sorted column indices to drop (duplicates kept), or the first unknown variable.
`strip` is `str.strip` / `str_strip` -/
def translateExcept (strip : Str → Str) (inMap : VarMap) (lits : List Str) (text : Str) : Except ExceptErr (List Nat) :=
  ((splitOn [','] text).mapM (fun v =>
    let name := combineLiterals (strip v) lits
    match inMap.get? name with
    | some i => (Except.ok i.index : Except ExceptErr Nat)
    | none => Except.error (.unknownField name))).map sortNats

end Rbql
