/-
  Column-name variables: operational model of `query_probably_has_dictionary_variable`, `parse_dictionary_variables`,
  `parse_attribute_variables`, `map_variables_directly`, `ensure_no_ambiguous_variables`, `generate_common_init_code` and
  `generate_init_statements` (rbql_engine.py and rbql.js).  A variable map is an insertion-ordered dictionary
  `variable text ↦ (initialize, column index)`; the init code assigns `safe_get(record, index)` to every variable with
  `init = true` (`initialize` in the code).  The regular expressions are scanners (tied by the correspondence).  IMPORT-FREE, executable.
-/
import Rbql.Model.PyString
import Rbql.Model.Translate
namespace Rbql

structure VarInfo where
  init : Bool
  index : Nat
  deriving DecidableEq, Repr

/-- an insertion-ordered dictionary (Python `dict` / JS object with string keys) -/
abbrev VarMap := List (Str × VarInfo)

/-- `d[key] = value`: an existing key keeps its position -/
def VarMap.set : VarMap → Str → VarInfo → VarMap
  | [], k, v => [(k, v)]
  | (k', v') :: rest, k, v => if k' = k then (k', v) :: rest else (k', v') :: VarMap.set rest k v

def VarMap.get? (m : VarMap) (k : Str) : Option VarInfo := (m.find? (fun e => e.1 = k)).map (·.2)

/-- `[-a-zA-Z0-9_:;+=!.,()%^#@&* ]` -/
def isSegmentChar (c : Char) : Bool :=
  isAlpha c || isDigit c || "-_:;+=!.,()%^#@&* ".toList.contains c

/-- `re.findall('[-a-zA-Z0-9_:;+=!.,()%^#@&* ]+', column_name)`: the maximal runs of segment characters -/
def nameSegments : Str → Str → List Str
  | [], cur => if cur.isEmpty then [] else [cur.reverse]
  | c :: cs, cur =>
    if isSegmentChar c then nameSegments cs (c :: cur)
    else if cur.isEmpty then nameSegments cs [] else cur.reverse :: nameSegments cs []

/-- `query_probably_has_dictionary_variable` -/
def queryProbablyHasDictVar (query name : Str) : Bool :=
  (nameSegments name []).all (fun seg => occursIn seg query)

/-- `re.search(r'(?:^|[^_a-zA-Z0-9])a\[', query_text) is not None` -/
def hasSubscriptOf (pfx : Char) : Bool → Str → Bool
  | _, [] => false
  | boundary, c :: cs =>
    (boundary && c == pfx && cs.head? == some '[') || hasSubscriptOf pfx (!isWordChar c) cs

/-- JavaScript also knows the back-tick form -/
def jsEscapeName (q : Char) (name : Str) : Str := pyEscape q name

def dictKey (pfx q : Char) (name : Str) : Str := [pfx, '['] ++ [q] ++ pyEscape q name ++ [q] ++ [']']

/-- `parse_dictionary_variables` (`js` adds the back-tick spelling) -/
def parseDictionaryVariables (js : Bool) (query : Str) (pfx : Char) (names : List Str) (m : VarMap) : VarMap :=
  if !hasSubscriptOf pfx true query then m
  else
    (names.zipIdx).foldl (fun acc p =>
      if queryProbablyHasDictVar query p.1 then
        let acc := acc.set (dictKey pfx '"' p.1) { init := true, index := p.2 }
        let acc := acc.set (dictKey pfx '\'' p.1) { init := false, index := p.2 }
        if js then acc.set (dictKey pfx '`' p.1) { init := false, index := p.2 } else acc
      else acc) m

/-- `(?:^|[^_a-zA-Z0-9])a\.([_a-zA-Z][_a-zA-Z0-9]*)`: the attribute names, in order of occurrence (`finditer`) -/
def attrNames (pfx : Char) : Nat → Bool → Str → List Str
  | _, _, [] => []
  | skip + 1, _, c :: cs => attrNames pfx skip (!isWordChar c) cs
  | 0, boundary, c :: cs =>
    match (if boundary && c == pfx then
             (match cs with
              | '.' :: n :: rest => if isIdStart n then some (n :: rest.takeWhile isWordChar) else none
              | _ => none)
           else none) with
    | some name => name :: attrNames pfx (name.length + 1) false cs       -- `.` and the name are consumed
    | none => attrNames pfx 0 (!isWordChar c) cs

inductive VarErr
  | columnNotFound (name : Str)        -- 'Unable to find column "…" in input/join …'
  | badDirectName (name : Str)         -- 'Unable to use column name "…" as RBQL/Python variable'
  | ambiguous (name : Str)             -- 'Ambiguous variable name: "…" is present both in input and in join tables'
  deriving DecidableEq, Repr

/-- the column an attribute name denotes: Python builds `{name: index}` (the LAST column of that name), rbql.js uses `indexOf` (the FIRST) -/
def attrColumn (js : Bool) (names : List Str) (name : Str) : Option Nat :=
  if js then (names.zipIdx.find? (fun p => p.1 == name)).map (·.2)
  else (names.zipIdx.reverse.find? (fun p => p.1 == name)).map (·.2)

/-- `parse_attribute_variables` -/
def parseAttributeVariables (js : Bool) (query : Str) (pfx : Char) (names : List Str) (m : VarMap) : Except VarErr VarMap :=
  (attrNames pfx 0 true query).foldlM (fun acc name =>
    match attrColumn js names name with
    | some i => .ok (acc.set ([pfx, '.'] ++ name) { init := true, index := i })
    | none => .error (.columnNotFound name)) m

def isIdentifierName (s : Str) : Bool :=
  match s with
  | c :: cs => isIdStart c && cs.all isWordChar
  | [] => false

/-- `map_variables_directly` -/
def mapVariablesDirectly (query : Str) (names : List Str) (m : VarMap) : Except VarErr VarMap :=
  (names.zipIdx).foldlM (fun acc p =>
    if !isIdentifierName p.1 then .error (.badDirectName p.1)
    else if occursIn p.1 query then .ok (acc.set p.1 { init := true, index := p.2 })
    else .ok acc) m

/-- `ensure_no_ambiguous_variables` -/
def ensureNoAmbiguous (query : Str) (inputNames joinNames : List Str) : Except VarErr Unit :=
  match inputNames.find? (fun n => joinNames.contains n && occursIn n query) with
  | some n => .error (.ambiguous n)
  | none => .ok ()

/-- what `generate_init_statements` assigns for one table: `(variable text, column index)` for every variable to initialise,
in map order; the record-number aliases (`a.NR = NR`, `aNR = NR`) are `none` -/
def initAssignments (query : Str) (pfx : Char) (m : VarMap) : List (Str × Option Nat) :=
  (if occursIn [pfx, '.', 'N', 'R'] query then [([pfx, '.', 'N', 'R'], none)] else []) ++
  (if pfx == 'a' && occursIn "aNR".toList query then [("aNR".toList, none)] else []) ++
  (m.filter (·.2.init)).map (fun e => (e.1, some e.2.index))

end Rbql

namespace Rbql

/-! ### `get_variables_map` of the iterators: which passes run, in which order -/

def natStr (n : Nat) : Str := (toString n).toList

/-- `parse_basic_variables` then `parse_array_variables`: `a<n>` and `a[<n>]` bind to column n-1 -/
def positionalVars (py : Bool) (pfx : Char) (query : Str) (m : VarMap) : VarMap :=
  let m1 := (basicVarNums py pfx 0 0 query).foldl (fun acc n => acc.set (pfx :: natStr n) { init := true, index := n - 1 }) m
  (arrayVarNums pfx 0 0 query).foldl (fun acc n => acc.set ([pfx, '['] ++ natStr n ++ [']']) { init := true, index := n - 1 }) m1

inductive TableVarErr
  | widthMismatch                    -- 'List of column names and table records have different lengths'
  | var (e : VarErr)
  deriving DecidableEq, Repr

/-- `TableIterator.get_variables_map` / `DataframeIterator.get_variables_map`: the positional passes FIRST, then — when the table has
column names — either the dictionary + attribute passes (normalised names) or the direct pass; a later pass overwrites an earlier one,
so in direct mode a column NAMED like a positional variable is that column. `firstWidth` = width of the first record, if any. -/
def tableVariablesMap (js : Bool) (query : Str) (pfx : Char) (names : Option (List Str)) (normalize : Bool) (firstWidth : Option Nat) :
    Except TableVarErr VarMap :=
  let m := positionalVars (!js) pfx query []
  match names with
  | none => .ok m
  | some ns =>
    if (match firstWidth with | some w => w != ns.length | none => false) then .error .widthMismatch
    else if normalize then
      match parseAttributeVariables js query pfx ns (parseDictionaryVariables js query pfx ns m) with
      | .ok m' => .ok m'
      | .error e => .error (.var e)
    else
      match mapVariablesDirectly query ns m with
      | .ok m' => .ok m'
      | .error e => .error (.var e)

end Rbql

namespace Rbql

/-! ### `get_variables_map` of the other adapters: the same passes, in their own order and under their own conditions -/

inductive IterKind
  | table        -- rbql_engine.TableIterator (lists)
  | pandas       -- rbql_pandas.DataframeIterator
  | csv          -- rbql_csv.CSVRecordIterator (rbql_csv.py and rbql_csv.js)
  | sqlite       -- rbql_sqlite.SqliteRecordIterator
  deriving DecidableEq, Repr

/-- `get_variables_map` of every input adapter. `names`: the column names the adapter knows (`none`: a list / dataframe without names, a CSV
file read without header). The CSV iterators run the ATTRIBUTE pass before the dictionary pass (so an unknown `a.name` is reported even when the
dictionary pass would have run first elsewhere); the list iterator alone checks the width of the first record; only lists and dataframes have
the direct (non-normalised) mode. -/
def iteratorVariablesMap (kind : IterKind) (js : Bool) (query : Str) (pfx : Char) (names : Option (List Str)) (normalize : Bool)
    (firstWidth : Option Nat) : Except TableVarErr VarMap :=
  match kind with
  | .table => tableVariablesMap js query pfx names normalize firstWidth
  | .pandas => tableVariablesMap js query pfx names normalize none
  | .sqlite => tableVariablesMap js query pfx names true none
  | .csv =>
    let m := positionalVars (!js) pfx query []
    match names with
    | none => .ok m
    | some ns =>
      match parseAttributeVariables js query pfx ns m with
      | .ok m' => .ok (parseDictionaryVariables js query pfx ns m')
      | .error e => .error (.var e)

end Rbql
