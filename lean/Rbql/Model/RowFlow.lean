/-
  Row flow: which list OBJECTS the engine's main-loop templates and writers bind, mutate and hand on (property C06).

  The flow itself — `Generated/RowFlow.lean` — is REGENERATED from `/repo`'s `rbql_engine.py` / `rbql.js` on every run by
  `tools/row_flow_scan.py` (every `name = expr` on a row variable classified as alias / copy / fresh, every in-place mutation,
  every row handed to a writer).  This file gives the flow a meaning: a small heap machine in which rows are references, an
  `alias` binding shares the object, `copy` / `fresh` allocate, a mutation writes through the reference; and a decidable
  may-alias check `RowFlow.check`.  `Proofs/RowFlowSound.lean` proves the check sound: if it passes, NO program made of the
  flow's statements (in any order, any number of times — the loops of the engine) changes an input object or hands one to a
  writer.  IMPORT-FREE, executable.
-/
namespace Rbql

inductive BindKind
  | alias      -- `x = y`: the same object
  | copy       -- `x = y[:]`, `list(y)`, `y.slice()`: a new object with y's contents
  | fresh      -- `[..] + y + [..]`, a comprehension, `[].concat(..)`: a new object
  deriving DecidableEq, Repr

structure RowFlow where
  /-- names bound to objects of the caller's tables when a record is processed (`record_a`, `record_b`, …) -/
  inputs : List String
  /-- `(x, kind, y)`: the statement `x = …y…` -/
  binds : List (String × BindKind × String)
  /-- names through which an object is modified in place -/
  mutated : List String
  /-- names handed to a writer (which may keep and may modify the object) -/
  written : List String
  deriving Repr

/-- one round of "x may be an input object if it is bound as an alias of something that may be" -/
def RowFlow.step (f : RowFlow) (s : List String) : List String :=
  s ++ (f.binds.filter (fun b => b.2.1 == .alias && s.contains b.2.2 && !s.contains b.1)).map (·.1)

def RowFlow.closure (f : RowFlow) : Nat → List String → List String
  | 0, s => s
  | n + 1, s => f.closure n (f.step s)

/-- the names that may denote an input object -/
def RowFlow.mayInput (f : RowFlow) : List String := f.closure f.binds.length f.inputs

def RowFlow.closed (f : RowFlow) (s : List String) : Bool :=
  f.inputs.all s.contains && f.binds.all (fun b => !(b.2.1 == .alias && s.contains b.2.2) || s.contains b.1)

/-- the static check: the may-input set is closed, nothing in it is mutated, nothing in it is written -/
def RowFlow.check (f : RowFlow) : Bool :=
  let s := f.mayInput
  f.closed s && f.mutated.all (fun x => !s.contains x) && f.written.all (fun x => !s.contains x)

/-! ### the heap machine -/

abbrev Ref := Nat

structure MState where
  heap : Ref → List Nat                -- contents of every object (cells abstracted to numbers)
  env : String → Option Ref            -- what each row variable currently denotes
  next : Ref                           -- allocation counter: every reference ≥ next is unused
  written : List Ref := []             -- objects handed to a writer so far

inductive FlowStmt
  | bind (x : String) (k : BindKind) (y : String)
  | mutate (x : String) (i v : Nat)    -- `x[i] = v` (any in-place modification)
  | write (x : String)
  deriving Repr

def setCell (l : List Nat) (i v : Nat) : List Nat := if i < l.length then l.set i v else l ++ [v]

def exec (st : MState) : FlowStmt → MState
  | .bind x .alias y =>
    match st.env y with
    | some r => { st with env := fun n => if n = x then some r else st.env n }
    | none => st
  | .bind x .copy y =>
    match st.env y with
    | some r => { st with heap := fun p => if p = st.next then st.heap r else st.heap p,
                          env := fun n => if n = x then some st.next else st.env n, next := st.next + 1 }
    | none => st
  | .bind x .fresh _ =>
    { st with heap := fun p => if p = st.next then [] else st.heap p,
              env := fun n => if n = x then some st.next else st.env n, next := st.next + 1 }
  | .mutate x i v =>
    match st.env x with
    | some r => { st with heap := fun p => if p = r then setCell (st.heap r) i v else st.heap p }
    | none => st
  | .write x =>
    match st.env x with
    | some r => { st with written := r :: st.written }
    | none => st

def execAll (st : MState) : List FlowStmt → MState
  | [] => st
  | s :: rest => execAll (exec st s) rest

/-- a statement the flow allows -/
def RowFlow.allows (f : RowFlow) : FlowStmt → Prop
  | .bind x k y => (x, k, y) ∈ f.binds
  | .mutate x _ _ => x ∈ f.mutated
  | .write x => x ∈ f.written

/-- the state in which a record is processed: the input names denote distinct existing objects, nothing else is bound -/
structure InitOk (f : RowFlow) (st : MState) (inputRefs : List Ref) : Prop where
  bound : ∀ x r, st.env x = some r → x ∈ f.inputs ∧ r ∈ inputRefs
  below : ∀ r ∈ inputRefs, r < st.next
  nothingWritten : st.written = []

end Rbql
