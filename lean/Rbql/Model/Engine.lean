/-
  Relational core: operational model of `rbql_engine.py` (main loop, writer chain
  Sorted(Uniq|UniqCount(Top(user writer))), aggregators, hash join + joiners, UPDATE on a copy,
  UNNEST expansion).  User expressions are arbitrary functions `Env → Except ErrKind _`, so every
  theorem quantifies over all programs.  IMPORT-FREE, executable.
-/
import Rbql.Model.Val
import Rbql.Model.Number
namespace Rbql

/-! ### the user's output writer (with an optional refusal point, for the broken-pipe clauses) -/

structure Sink where
  rows : List Row := []            -- accepted records, most recent first
  writes : Nat := 0                -- number of `write` calls received
  refuseFrom : Option Nat := none  -- the k-th call (1-based) and every later one answers False
  afterRefusal : Nat := 0          -- `write` calls received after a refused one
  finished : Nat := 0              -- number of `finish` calls received
  deriving Repr

def Sink.write (s : Sink) (r : Row) : Sink × Bool :=
  let k := s.writes + 1
  match s.refuseFrom with
  | some n =>
    if n ≤ k then
      ({ s with writes := k, afterRefusal := if n < k then s.afterRefusal + 1 else s.afterRefusal }, false)
    else ({ s with writes := k, rows := r :: s.rows }, true)
  | none => ({ s with writes := k, rows := r :: s.rows }, true)

/-! ### writer chain

The chain built by `shallow_parse_input_query` always has the shape
`SortedWriter? ( UniqWriter | UniqCountWriter ? ( TopWriter? ( user writer )))`,
so it is modelled as three fixed layers rather than as a recursive datatype. -/

/-- `TopWriter?` over the user's writer; `top = some (cap, NW)` -/
structure TopLayer where
  top : Option (Nat × Nat) := none
  sink : Sink := {}
  deriving Repr

def TopLayer.write (t : TopLayer) (r : Row) : TopLayer × Bool :=
  match t.top with
  | none => let (s, ok) := t.sink.write r; ({ t with sink := s }, ok)
  | some (cap, nw) =>
    if cap ≤ nw then (t, false)
    else
      let (s, ok) := t.sink.write r
      ({ top := some (cap, if ok then nw + 1 else nw), sink := s }, ok)

/-- write the rows in order until one is refused (the `for … if not write: break` loops) -/
def TopLayer.feed : TopLayer → List Row → TopLayer
  | t, [] => t
  | t, r :: rs => let (t', ok) := t.write r; if ok then t'.feed rs else t'

def TopLayer.finish (t : TopLayer) : TopLayer :=
  { t with sink := { t.sink with finished := t.sink.finished + 1 } }

inductive DistState
  | none
  | uniq (seen : List Row)                      -- UniqWriter
  | uniqCount (recs : List (Row × Nat))         -- UniqCountWriter (insertion order)
  deriving Repr

def bumpCount : List (Row × Nat) → Row → List (Row × Nat)
  | [], r => [(r, 1)]
  | (r', n) :: rest, r => if r' = r then (r', n + 1) :: rest else (r', n) :: bumpCount rest r

structure DistLayer where
  dist : DistState := .none
  sub : TopLayer := {}
  deriving Repr

def DistLayer.write (d : DistLayer) (r : Row) : DistLayer × Bool :=
  match d.dist with
  | .none => let (t, ok) := d.sub.write r; ({ d with sub := t }, ok)
  | .uniq seen =>
    if r ∈ seen then (d, true)
    else let (t, ok) := d.sub.write r; ({ dist := .uniq (r :: seen), sub := t }, ok)
  | .uniqCount recs => ({ d with dist := .uniqCount (bumpCount recs r) }, true)

def DistLayer.feed : DistLayer → List Row → DistLayer
  | d, [] => d
  | d, r :: rs => let (d', ok) := d.write r; if ok then d'.feed rs else d'

def DistLayer.finish (d : DistLayer) : DistLayer :=
  match d.dist with
  | .uniqCount recs => { d with sub := (d.sub.feed (recs.map (fun e => Val.nat e.2 :: e.1))).finish }
  | _ => { d with sub := d.sub.finish }

/-- `SortedWriter?` on top: `sorted = some (reverse, entries in arrival order)` -/
structure Chain where
  sorted : Option (Bool × List (List Val × Row)) := none
  sub : DistLayer := {}
  deriving Repr

/-- `writer.write(record)` / `writer.write(sort_key, record)` -/
def Chain.write (c : Chain) (k : List Val) (r : Row) : Chain × Bool :=
  match c.sorted with
  | some (rev, entries) => ({ c with sorted := some (rev, entries ++ [(k, r)]) }, true)
  | none => let (d, ok) := c.sub.write r; ({ c with sub := d }, ok)

def Chain.feed : Chain → List Row → Chain
  | c, [] => c
  | c, r :: rs => let (c', ok) := c.write [] r; if ok then c'.feed rs else c'

def sortEntries (rev : Bool) (entries : List (List Val × Row)) : List Row :=
  let s := entries.mergeSort (fun x y => keyLe x.1 y.1)
  (if rev then s.reverse else s).map (·.2)

/-- `writer.finish()` -/
def Chain.finish (c : Chain) : Chain :=
  match c.sorted with
  | some (rev, entries) => { c with sub := (c.sub.feed (sortEntries rev entries)).finish }
  | none => { c with sub := c.sub.finish }

def Chain.getSink (c : Chain) : Sink := c.sub.sub.sink

/-- the check in `select_aggregated`: SortedWriter / UniqWriter / UniqCountWriter on top -/
def Chain.forbidsAggregation (c : Chain) : Bool :=
  c.sorted.isSome || (match c.sub.dist with | .none => false | _ => true)

/-! ### aggregators -/

inductive AggKind | anyValue | min | max | sum | avg | variance | median | count | arrayAgg
  deriving DecidableEq, Repr

inductive Acc
  | first (v : Val)                        -- ANY_VALUE, ConstGroupVerifier
  | best (q : Rat)                         -- MIN / MAX
  | sum (q : Rat)
  | sumCnt (s : Rat) (n : Nat)             -- AVG
  | sumSqCnt (s s2 : Rat) (n : Nat)        -- VARIANCE
  | vals (xs : List Rat)                   -- MEDIAN (arrival order)
  | cnt (n : Nat)
  | arr (xs : List Atom)                   -- ARRAY_AGG (arrival order)
  deriving Repr

/-- one output column of an aggregate query: an aggregate function or a constant-per-group verifier -/
structure AggCol where
  kind : Option AggKind                    -- none = ConstGroupVerifier
  isStr : Option Bool := none              -- NumHandler: decided by the first value it sees
  stats : List (List Val × Acc) := []      -- per key, in first-seen order
  deriving Repr

/-- numeric strings as `NumHandler.parse` reads them (Model/Number.lean: Python's `int()` grammar, then `float()`'s); over the rationals the
handler's integer mode does not matter (`C03_int_literal_is_float_literal`). `inf` / `nan` are accepted by Python but have no rational
value: the engine model refuses them and the generators of the engine-level checks never produce them (the number-level tie does). -/
def parseNumStr (s : Str) : Option Rat := (numHandlerParseStr true s).1.value

/-- `NumHandler.parse` (int-then-float fallback collapses over the rationals) -/
def numParse (isStr : Option Bool) (v : Val) : Except ErrKind (Rat × Option Bool) :=
  let isStr' := match isStr with
    | some b => b
    | none => (match v with | .at (.str _) => true | _ => false)
  if isStr' then
    match v with
    | .at (.str s) => (match parseNumStr s with | some q => .ok (q, some true) | none => .error .exc)
    | _ => .error .exc
  else
    match v with
    | .at (.num q) => .ok (q, some false)
    | _ => .error .exc

def lookupAcc (stats : List (List Val × Acc)) (key : List Val) : Option Acc :=
  (stats.find? (fun e => e.1 = key)).map (·.2)

def setAcc : List (List Val × Acc) → List Val → Acc → List (List Val × Acc)
  | [], k, a => [(k, a)]
  | (k', a') :: rest, k, a => if k' = k then (k', a) :: rest else (k', a') :: setAcc rest k a

/-- `aggregator.increment(key, value)` -/
def AggCol.increment (c : AggCol) (key : List Val) (v : Val) : Except ErrKind AggCol :=
  let cur := lookupAcc c.stats key
  match c.kind with
  | none =>                                   -- ConstGroupVerifier (membership test, see fix D7)
    match cur with
    | none => .ok { c with stats := setAcc c.stats key (.first v) }
    | some (.first old) => if old = v then .ok c else .error .exc
    | some _ => .error .exc
  | some .anyValue =>
    match cur with
    | none => .ok { c with stats := setAcc c.stats key (.first v) }
    | some _ => .ok c
  | some .count =>
    match cur with
    | some (.cnt n) => .ok { c with stats := setAcc c.stats key (.cnt (n + 1)) }
    | _ => .ok { c with stats := setAcc c.stats key (.cnt 1) }
  | some .arrayAgg =>
    match v with
    | .at a =>
      (match cur with
       | some (.arr xs) => .ok { c with stats := setAcc c.stats key (.arr (xs ++ [a])) }
       | _ => .ok { c with stats := setAcc c.stats key (.arr [a]) })
    | .list _ => .error .exc                 -- nested lists are outside the value model
  | some k => do
    let (q, isStr) ← numParse c.isStr v
    let c := { c with isStr := isStr }
    let acc : Acc := match k, cur with
      | .min, some (.best b) => .best (if q < b then q else b)
      | .min, _ => .best q
      | .max, some (.best b) => .best (if b < q then q else b)
      | .max, _ => .best q
      | .sum, some (.sum s) => .sum (s + q)
      | .sum, _ => .sum q
      | .avg, some (.sumCnt s n) => .sumCnt (s + q) (n + 1)
      | .avg, _ => .sumCnt q 1
      | .variance, some (.sumSqCnt s s2 n) => .sumSqCnt (s + q) (s2 + q * q) (n + 1)
      | .variance, _ => .sumSqCnt q (q * q) 1
      | _, some (.vals xs) => .vals (xs ++ [q])       -- median
      | _, _ => .vals [q]
    .ok { c with stats := setAcc c.stats key acc }

def medianOf (xs : List Rat) : Rat :=
  let s := xs.mergeSort (fun a b => a ≤ b)
  let m := s.length / 2
  if s.length % 2 = 1 then s.getD m 0
  else
    let a := s.getD (m - 1) 0
    let b := s.getD m 0
    if a = b then a else (a + b) / 2

/-- `aggregator.get_final(key)` -/
def Acc.final : Acc → Val
  | .first v => v
  | .best q => Val.num q
  | .sum q => Val.num q
  | .sumCnt s n => Val.num (s / (n : Rat))
  | .sumSqCnt s s2 n => Val.num (s2 / (n : Rat) - (s / (n : Rat)) * (s / (n : Rat)))
  | .vals xs => Val.num (medianOf xs)
  | .cnt n => Val.nat n
  | .arr xs => .list xs

structure AggState where
  cols : List AggCol
  keys : List (List Val) := []             -- aggregation_keys, first-seen order, distinct

/-! ### queries (semantic form: expressions are functions) -/

inductive SItem
  | expr (e : Ex Val)
  | star | starA | starB
  | unnest (e : Ex (List Atom))
  | agg (k : AggKind) (e : Ex Val)

inductive JoinKind | inner | left | strictLeft
  deriving DecidableEq, Repr

/-- one `a… == b…` pair of the ON clause: `none` = NR / bNR, `some i` = field index -/
structure JoinSpec where
  kind : JoinKind
  lhs : List (Option Nat)
  rhs : List (Option Nat)
  /-- number of columns of the join table's header (0 without a header): the LEFT JOIN null record is at least that wide -/
  nullWidth : Nat := 0

inductive Distinct | no | yes | count
  deriving DecidableEq, Repr

structure SemQuery where
  isUpdate : Bool := false
  items : List SItem := []
  exceptCols : Option (List Nat) := none          -- `select * except …`
  where_ : Option (Ex Bool) := none
  join : Option JoinSpec := none
  orderBy : Option (Ex (List Val)) := none
  desc : Bool := false
  groupBy : Option (Ex (List Val)) := none
  distinct : Distinct := .no
  top : Option Nat := none
  assigns : List (Nat × Ex Val) := []

inductive ParseErr
  | unnestTwice            -- 'Only one UNNEST is allowed per query'
  | aggWithOrderDistinct   -- '"ORDER BY", "UPDATE" and "DISTINCT" keywords are not allowed in aggregate queries'
  deriving DecidableEq, Repr

inductive EngErr
  | runtime (nr : Nat) (field : Option Nat)   -- at record nr; `some k` = 'No "a{k}" field' (1-based)
  | joinB (nr idx : Nat)                      -- 'No field with index {idx} at record {nr} in "B" table'
  | parsing (e : ParseErr)
  deriving DecidableEq, Repr

/-! ### hash join -/

structure JoinMap where
  entries : List (List Val × List (Nat × Nat × Row)) := []   -- key ↦ [(bNR, bNF, record_b)] in B order
  maxLen : Nat := 0

def addJoinEntry : List (List Val × List (Nat × Nat × Row)) → List Val → (Nat × Nat × Row) →
    List (List Val × List (Nat × Nat × Row))
  | [], k, e => [(k, [e])]
  | (k', es) :: rest, k, e => if k' = k then (k', es ++ [e]) :: rest else (k', es) :: addJoinEntry rest k e

def rhsKey (rhs : List (Option Nat)) (nr : Nat) (fields : Row) : Except EngErr (List Val) :=
  rhs.mapM (fun ki => match ki with
    | none => .ok (Val.nat nr)
    | some i => if fields.length ≤ i then .error (.joinB nr (i + 1)) else .ok (fields.getD i Val.none))

/-- `HashJoinMap.build` -/
def JoinMap.build (rhs : List (Option Nat)) : Table → Nat → JoinMap → Except EngErr JoinMap
  | [], _, jm => .ok jm
  | fields :: rest, nr, jm => do
    let nr := nr + 1
    let key ← rhsKey rhs nr fields
    JoinMap.build rhs rest nr
      { entries := addJoinEntry jm.entries key (nr, fields.length, fields), maxLen := max jm.maxLen fields.length }

/-- `max_record_len = max(max_record_len, len(join_header))` after the build -/
def JoinMap.widen (w : Nat) (jm : JoinMap) : JoinMap := { jm with maxLen := max jm.maxLen w }

def JoinMap.get (jm : JoinMap) (key : List Val) : List (Nat × Nat × Row) :=
  ((jm.entries.find? (fun e => e.1 = key)).map (·.2)).getD []

/-- `joiner.get_rhs(lhs_key)`: (bNR, record_b) per partner; the LEFT JOIN null record has bNR = None -/
def getRhs (kind : JoinKind) (jm : JoinMap) (key : List Val) : Except ErrKind (List (Option Nat × Row)) :=
  let ms := (jm.get key).map (fun e => (some e.1, e.2.2))
  match kind with
  | .inner => .ok ms
  | .left => .ok (if ms = [] then [(none, List.replicate jm.maxLen Val.none)] else ms)
  | .strictLeft => if ms.length = 1 then .ok ms else .error .exc

/-- the left-hand key: `NR` or `safe_join_get(record_a, idx)` -/
def lhsKey (lhs : List (Option Nat)) (nr : Nat) (recA : Row) : Except ErrKind (List Val) :=
  lhs.mapM (fun ki => match ki with
    | none => .ok (Val.nat nr)
    | some i => if recA.length ≤ i then .error (.badField i) else .ok (recA.getD i Val.none))

/-! ### main loop -/

structure LoopState where
  chain : Chain
  nu : Nat := 0
  stop : Bool := false
  agg : Option AggState := none

def liftErr (nr : Nat) {α : Type} (r : Except ErrKind α) : Except EngErr α :=
  match r with
  | .ok a => .ok a
  | .error .exc => .error (.runtime nr none)
  | .error (.badField i) => .error (.runtime nr (some (i + 1)))
  | .error .unnestTwice => .error (.parsing .unnestTwice)

def selectExcept (src : Row) (cols : List Nat) : Row :=
  (src.zipIdx.filter (fun p => !cols.contains p.2)).map (·.1)

/-- evaluate the select list on one (joined) record, left to right: the output fields (with a placeholder at
the UNNEST position) and, if there is an UNNEST item, its position and list.  `seen` = an UNNEST item has already
been evaluated: the second `UNNEST(...)` call raises as soon as it is reached (after its argument was evaluated) -/
def evalItemsFrom (seen : Bool) : List SItem → Env → Except ErrKind (Row × Option (Nat × List Atom))
  | [], _ => .ok ([], none)
  | it :: rest, e => do
    let (hd, un) ← (match it with
      | .expr f => do let v ← f e; pure ([v], none)
      | .star => pure (e.a ++ e.b.getD [], none)
      | .starA => pure (e.a, none)
      | .starB => pure (e.b.getD [], none)
      | .unnest f => do
        let l ← f e
        if seen then .error .unnestTwice else pure ([Val.none], some l)
      | .agg _ f => do let v ← f e; pure ([v], none) : Except ErrKind (Row × Option (List Atom)))
    let (tl, un2) ← evalItemsFrom (seen || un.isSome) rest e
    match un, un2 with
    | some l, _ => .ok (hd ++ tl, some (0, l))
    | none, some (p, l) => .ok (hd ++ tl, some (hd.length + p, l))
    | none, none => .ok (hd ++ tl, none)

def evalItems (items : List SItem) (e : Env) : Except ErrKind (Row × Option (Nat × List Atom)) :=
  evalItemsFrom false items e

/-- kinds of the output columns of an aggregate query, in output order (needs the record for stars) -/
def aggColKinds : List SItem → Env → List (Option AggKind)
  | [], _ => []
  | it :: rest, e =>
    (match it with
     | .agg k _ => [some k]
     | .star => List.replicate (e.a ++ e.b.getD []).length none
     | .starA => List.replicate e.a.length none
     | .starB => List.replicate (e.b.getD []).length none
     | _ => [none]) ++ aggColKinds rest e

def SemQuery.isAgg (q : SemQuery) : Bool :=
  q.groupBy.isSome || q.items.any (fun it => match it with | .agg .. => true | _ => false)

def incrementAll : List AggCol → List Val → Row → Except ErrKind (List AggCol)
  | c :: cs, key, v :: vs => do
    let c' ← c.increment key v
    let cs' ← incrementAll cs key vs
    pure (c' :: cs')
  | cs, _, _ => .ok cs

/-- `select_simple` / `select_unnested` for one evaluated record -/
def emitRows (st : LoopState) (key : List Val) (row : Row) (un : Option (Nat × List Atom)) : LoopState :=
  match un with
  | none =>
    let (c, ok) := st.chain.write key row
    { st with chain := c, stop := st.stop || !ok }
  | some (pos, l) =>
    let rec go (c : Chain) : List Atom → Chain × Bool
      | [] => (c, true)
      | v :: vs =>
        let (c', ok) := c.write key (row.set pos (.at v))
        if ok then go c' vs else (c', false)
    let (c, ok) := go st.chain l
    { st with chain := c, stop := st.stop || !ok }

/-- PROCESS_SELECT_COMMON for one (joined) record -/
def processSelect (q : SemQuery) (st : LoopState) (e : Env) : Except EngErr LoopState := do
  let pass ← liftErr e.nr (match q.where_ with | some w => w e | none => .ok true)
  if !pass then return st
  let (row, un) ← liftErr e.nr
    (match q.exceptCols with
     | some cols => .ok (selectExcept e.a cols, none)
     | none => evalItems q.items e)
  if q.isAgg then
    let key ← liftErr e.nr (match q.groupBy with | some g => g e | none => .ok [Val.none])
    match st.agg with
    | none =>
      if st.chain.forbidsAggregation then .error (.parsing .aggWithOrderDistinct)
      else
        let cols0 := (aggColKinds q.items e).map (fun k => ({ kind := k } : AggCol))
        let cols ← liftErr e.nr (incrementAll cols0 key row)
        return { st with agg := some { cols := cols, keys := [key] } }
    | some ag =>
      let cols ← liftErr e.nr (incrementAll ag.cols key row)
      return { st with agg := some { cols := cols, keys := if ag.keys.contains key then ag.keys else ag.keys ++ [key] } }
  else
    let key ← liftErr e.nr (match q.orderBy with | some o => o e | none => .ok [])
    return emitRows st key row un

/-- the `for join_match in join_matches: … if stop_flag: break` loop -/
def processMatches (q : SemQuery) (nr : Nat) (recA : Row) : LoopState → List (Option Nat × Row) → Except EngErr LoopState
  | st, [] => .ok st
  | st, (bnr, recB) :: rest => do
    let st' ← processSelect q st { nr := nr, a := recA, bnr := bnr, b := some recB, nu := st.nu }
    if st'.stop then return st' else processMatches q nr recA st' rest

def safeSet (r : Row) (i : Nat) (v : Val) : Except ErrKind Row :=
  if r.length ≤ i then .error (.badField i) else .ok (r.set i v)

def applyAssigns : List (Nat × Ex Val) → Env → Row → Except ErrKind Row
  | [], _, up => .ok up
  | (i, rhs) :: rest, e, up => do
    let v ← rhs e
    let up' ← safeSet up i v
    applyAssigns rest e up'

/-- PROCESS_UPDATE_SIMPLE / PROCESS_UPDATE_JOIN for one input record -/
def processUpdate (q : SemQuery) (jm : JoinMap) (st : LoopState) (nr : Nat) (recA : Row) : Except EngErr LoopState := do
  let (matched, bnr, recB) ← (match q.join with
    | none => pure (true, none, none)
    | some js => do
      let key ← liftErr nr (lhsKey js.lhs nr recA)
      let ms ← liftErr nr (getRhs js.kind jm key)
      if ms.length > 1 then .error (.runtime nr none)
      else match ms with
        | [(b, r)] => pure (true, b, some r)
        | _ => pure (false, none, none) : Except EngErr (Bool × Option Nat × Option Row))
  let e : Env := { nr := nr, a := recA, bnr := bnr, b := recB, nu := st.nu }
  let pass ← if matched then liftErr nr (match q.where_ with | some w => w e | none => .ok true) else pure false
  let (up, nu) ← if pass then do
      let up ← liftErr nr (applyAssigns q.assigns { e with nu := st.nu + 1 } recA)
      pure (up, st.nu + 1)
    else pure (recA, st.nu)
  let (c, ok) := st.chain.write [] up
  return { st with chain := c, nu := nu, stop := st.stop || !ok }

/-- the body of the `while` loop for one input record -/
def stepRecord (q : SemQuery) (jm : JoinMap) (st : LoopState) (nr : Nat) (recA : Row) : Except EngErr LoopState :=
  if q.isUpdate then processUpdate q jm st nr recA
  else match q.join with
    | none => processSelect q st { nr := nr, a := recA, nu := st.nu }
    | some js => do
      let key ← liftErr nr (lhsKey js.lhs nr recA)
      let ms ← liftErr nr (getRhs js.kind jm key)
      processMatches q nr recA st ms

/-- the `while not stop_flag` loop: returns the state, the number of records pulled, or the error -/
def mainLoop (q : SemQuery) (jm : JoinMap) : Table → Nat → LoopState → Except (EngErr × LoopState × Nat) (LoopState × Nat)
  | [], nr, st => .ok (st, nr)
  | recA :: rest, nr, st =>
    if st.stop then .ok (st, nr)
    else
      match stepRecord q jm st (nr + 1) recA with
      | .error e => .error (e, st, nr + 1)
      | .ok st' => mainLoop q jm rest (nr + 1) st'

/-- chain construction order of `shallow_parse_input_query` -/
def buildChain (q : SemQuery) (sink : Sink) : Chain :=
  if q.isUpdate then { sub := { sub := { sink := sink } } }
  else
    { sorted := match q.orderBy with | some _ => some (q.desc, []) | none => none,
      sub := { dist := match q.distinct with | .count => .uniqCount [] | .yes => .uniq [] | .no => .none,
               sub := { top := q.top.map (fun n => (n, 0)), sink := sink } } }

/-- `AggregateWriter.finish` then the rest of the chain -/
def finishAll (st : LoopState) : Chain :=
  match st.agg with
  | none => st.chain.finish
  | some ag =>
    let keys := ag.keys.mergeSort keyLe
    let rows := keys.map (fun k => ag.cols.map (fun c => ((lookupAcc c.stats k).map Acc.final).getD Val.none))
    (st.chain.feed rows).finish

/-- `fields_info` of a TableIterator after it delivered the records `t`: (num_fields, NR) in first-seen order -/
def fieldsInfoOf : Table → Nat → List (Nat × Nat) → List (Nat × Nat)
  | [], _, info => info
  | r :: rest, nr, info =>
    fieldsInfoOf rest (nr + 1) (if info.any (fun e => e.1 == r.length) then info else info ++ [(r.length, nr + 1)])

/-- the 'Number of fields … is not consistent' warning: the first record of each of the first two lengths -/
def fieldsWarning (t : Table) : Option (Nat × Nat × Nat × Nat) :=
  match fieldsInfoOf t 0 [] with
  | (nf1, nr1) :: (nf2, nr2) :: _ => some (nf1, nr1, nf2, nr2)
  | _ => none

structure RunResult where
  sink : Sink
  error : Option EngErr
  pulled : Nat
  warnA : Option (Nat × Nat × Nat × Nat) := none    -- input-table field-count warning (over the records pulled)
  warnB : Option (Nat × Nat × Nat × Nat) := none    -- join-table field-count warning

/-- `rbql.query` on list tables: build the join map, run the loop, finish the writers -/
def run (q : SemQuery) (A B : Table) (sink : Sink := {}) : RunResult :=
  let jmRes : Except EngErr JoinMap := match q.join with
    | some js => (JoinMap.build js.rhs B 0 {}).map (JoinMap.widen js.nullWidth)
    | none => .ok {}
  if q.groupBy.isSome && (q.orderBy.isSome || q.isUpdate) then
    -- detected from the query text, before anything runs
    { sink := sink, error := some (.parsing .aggWithOrderDistinct), pulled := 0 }
  else
  match jmRes with
  | .error e => { sink := sink, error := some e, pulled := 0 }
  | .ok jm =>
    match mainLoop q jm A 0 { chain := buildChain q sink } with
    | .error (e, st, n) => { sink := st.chain.getSink, error := some e, pulled := n }
    | .ok (st, n) =>
      { sink := (finishAll st).getSink, error := none, pulled := n,
        warnA := fieldsWarning (A.take n), warnB := if q.join.isSome then fieldsWarning B else none }

def RunResult.rows (r : RunResult) : List Row := r.sink.rows.reverse

end Rbql
