/-
  Numeric strings: operational model of what the aggregate functions accept as a number and which number it is.

  Python (`NumHandler.parse` of rbql_engine.py): `int(val)` while the handler is in integer mode, `float(val)` after the first string
  that is not an integer literal.  rbql.js (`parse_number`): `Number(val)`, rejected when the result is NaN.
  `int`, `float` and `Number` are host functions; their GRAMMARS are modelled here as scanners (decimal digits with Python's single
  underscores, sign, fraction, exponent, the words inf / infinity / nan / Infinity, JavaScript's 0x / 0o / 0b literals and its
  "empty string is 0"), tied to the hosts by the correspondence on every string of length <= 4 (5) over a 14-character alphabet.
  Values are exact rationals: the IEEE rounding of `float` / `Number` is outside the model (the harness compares with the correctly
  rounded double of the model's rational).  Not modelled: non-ASCII decimal digits (accepted by Python), which the tie excludes.
  IMPORT-FREE, executable.
-/
import Rbql.Model.Basic
namespace Rbql

/-- Python `str.strip()` / `str.isspace()` characters -/
def isPyWsU (c : Char) : Bool :=
  let n := c.toNat
  decide ((9 ≤ n ∧ n ≤ 13) ∨ (28 ≤ n ∧ n ≤ 32) ∨ n = 0x85 ∨ n = 0xa0 ∨ n = 0x1680 ∨ (0x2000 ≤ n ∧ n ≤ 0x200a) ∨
    n = 0x2028 ∨ n = 0x2029 ∨ n = 0x202f ∨ n = 0x205f ∨ n = 0x3000)

/-- JavaScript `String.prototype.trim()` characters (WhiteSpace + LineTerminator) -/
def isJsWs (c : Char) : Bool :=
  let n := c.toNat
  decide ((9 ≤ n ∧ n ≤ 13) ∨ n = 32 ∨ n = 0xa0 ∨ n = 0x1680 ∨ (0x2000 ≤ n ∧ n ≤ 0x200a) ∨
    n = 0x2028 ∨ n = 0x2029 ∨ n = 0x202f ∨ n = 0x205f ∨ n = 0x3000 ∨ n = 0xfeff)

def stripBy (p : Char → Bool) (s : Str) : Str := ((s.dropWhile p).reverse.dropWhile p).reverse

/-- Python `s.strip()` -/
def pyStripU (s : Str) : Str := stripBy isPyWsU s
/-- rbql.js `str_strip`: `src.replace(/^ +| +$/g, '')` -/
def jsStrStrip (s : Str) : Str := stripBy (· == ' ') s
/-- JavaScript `s.trim()` -/
def jsTrim (s : Str) : Str := stripBy isJsWs s

/-- what `int()` / `float()` skip around a number: CPython maps NON-ASCII Unicode whitespace to a blank and then skips C `isspace`
characters — so the ASCII separators U+001C..U+001F, which `str.strip()` removes, are NOT skipped here -/
def isPyNumWs (c : Char) : Bool :=
  let n := c.toNat
  decide ((9 ≤ n ∧ n ≤ 13) ∨ n = 32) || (decide (128 ≤ n) && isPyWsU c)

def pyNumStrip (s : Str) : Str := stripBy isPyNumWs s

/-! ### scanners -/

def numDig (c : Char) : Bool := decide (48 ≤ c.toNat ∧ c.toNat ≤ 57)
def digVal (c : Char) : Nat := c.toNat - 48
def numLower (c : Char) : Char := if 65 ≤ c.toNat ∧ c.toNat ≤ 90 then Char.ofNat (c.toNat + 32) else c

/-- the rest of `digit (_? digit)*` after its first digit: value so far, digits so far; `us`: single underscores between digits are
allowed (Python), never in JavaScript's string-to-number conversion -/
def scanDigitsTail (us : Bool) : Str → Nat → Nat → Nat × Nat × Str
  | [], acc, n => (acc, n, [])
  | [c], acc, n => if numDig c then (acc * 10 + digVal c, n + 1, []) else (acc, n, [c])
  | c :: d :: ds, acc, n =>
    if numDig c then scanDigitsTail us (d :: ds) (acc * 10 + digVal c) (n + 1)
    else if us && c == '_' && numDig d then scanDigitsTail us ds (acc * 10 + digVal d) (n + 1)
    else (acc, n, c :: d :: ds)

/-- `digit (_? digit)*`: its value, its number of digits, the unread rest -/
def scanDigits (us : Bool) : Str → Option (Nat × Nat × Str)
  | c :: cs => if numDig c then some (scanDigitsTail us cs (digVal c) 1) else none
  | [] => none

def takeSign : Str → Bool × Str
  | '-' :: r => (true, r)
  | '+' :: r => (false, r)
  | s => (false, s)

/-- `m * 10^e` -/
def scaleExp (m : Rat) (e : Int) : Rat :=
  if 0 ≤ e then m * ((10 ^ e.toNat : Nat) : Rat) else m / ((10 ^ (-e).toNat : Nat) : Rat)

/-- the mantissa `digits [. [digits]] | . digits` -/
def scanMantissa (us : Bool) (s : Str) : Option (Rat × Str) :=
  match scanDigits us s with
  | some (ip, _, '.' :: r) =>
    (match scanDigits us r with
     | some (fp, k, r2) => some ((ip : Rat) + (fp : Rat) / ((10 ^ k : Nat) : Rat), r2)
     | none => some ((ip : Rat), r))
  | some (ip, _, r) => some ((ip : Rat), r)
  | none =>
    (match s with
     | '.' :: r =>
       (match scanDigits us r with
        | some (fp, k, r2) => some ((fp : Rat) / ((10 ^ k : Nat) : Rat), r2)
        | none => none)
     | _ => none)

/-- an unsigned decimal literal with optional exponent; an `e` that is not followed by `[sign] digits` is left unread -/
def scanDecimal (us : Bool) (s : Str) : Option (Rat × Str) :=
  match scanMantissa us s with
  | none => none
  | some (m, r) =>
    match r with
    | c :: r' =>
      if c == 'e' || c == 'E' then
        let sg := takeSign r'
        (match scanDigits us sg.2 with
         | some (v, _, r2) => some (scaleExp m (if sg.1 then -(v : Int) else (v : Int)), r2)
         | none => some (m, r))
      else some (m, r)
    | [] => some (m, [])

/-- what a numeric string denotes -/
inductive NumLit
  | int (n : Int)        -- Python `int`
  | dec (q : Rat)        -- Python `float` / JavaScript number (exact value of the literal)
  | nonFinite            -- inf / nan (Python accepts both; JavaScript accepts ±Infinity)
  | bad                  -- ValueError / NaN: the aggregate fails with "Unable to convert value … to a number"
  deriving DecidableEq, Repr

def NumLit.value : NumLit → Option Rat
  | .int n => some (n : Rat)
  | .dec q => some q
  | _ => none

/-- Python `int(s)` for a `str` (base 10) -/
def pyInt (s : Str) : Option Int :=
  let sg := takeSign (pyNumStrip s)
  match scanDigits true sg.2 with
  | some (v, _, []) => some (if sg.1 then -(v : Int) else (v : Int))
  | _ => none

/-- Python `float(s)` for a `str` -/
def pyFloat (s : Str) : NumLit :=
  let sg := takeSign (pyNumStrip s)
  let w := sg.2.map numLower
  if w == "inf".toList || w == "infinity".toList || w == "nan".toList then .nonFinite
  else
    match scanDecimal true sg.2 with
    | some (q, []) => .dec (if sg.1 then -q else q)
    | _ => .bad

/-- `NumHandler.parse` on a string: the result and the handler's `is_int` afterwards -/
def numHandlerParseStr (isInt : Bool) (s : Str) : NumLit × Bool :=
  if isInt then
    match pyInt s with
    | some n => (.int n, true)
    | none => (pyFloat s, false)
  else (pyFloat s, false)

/-- a run of `NumHandler.parse` calls on strings (a failing call raises, the handler stays usable: `is_int` is already cleared) -/
def numHandlerRun : Bool → List Str → List NumLit
  | _, [] => []
  | isInt, s :: rest => let r := numHandlerParseStr isInt s; r.1 :: numHandlerRun r.2 rest

def radixDigit (base : Nat) (c : Char) : Option Nat :=
  let n := c.toNat
  let v : Option Nat :=
    if 48 ≤ n ∧ n ≤ 57 then some (n - 48)
    else if 97 ≤ n ∧ n ≤ 102 then some (n - 87)
    else if 65 ≤ n ∧ n ≤ 70 then some (n - 55)
    else none
  match v with
  | some d => if d < base then some d else none
  | none => none

def scanRadix (base : Nat) : Str → Option Nat → Option Nat
  | [], acc => acc
  | c :: cs, acc =>
    match radixDigit base c with
    | some d => scanRadix base cs (some ((acc.getD 0) * base + d))
    | none => none

/-- JavaScript `Number(s)` for a string, as `parse_number` of rbql.js uses it (`bad` = NaN) -/
def jsNumber (s : Str) : NumLit :=
  let t := jsTrim s
  match t with
  | [] => .dec 0
  | '0' :: x :: r =>
    if x == 'x' || x == 'X' then (match scanRadix 16 r none with | some v => .dec (v : Rat) | none => .bad)
    else if x == 'o' || x == 'O' then (match scanRadix 8 r none with | some v => .dec (v : Rat) | none => .bad)
    else if x == 'b' || x == 'B' then (match scanRadix 2 r none with | some v => .dec (v : Rat) | none => .bad)
    else (match scanDecimal false t with | some (q, []) => .dec q | _ => .bad)
  | _ =>
    let sg := takeSign t
    if sg.2 == "Infinity".toList then .nonFinite
    else
      match scanDecimal false sg.2 with
      | some (q, []) => .dec (if sg.1 then -q else q)
      | _ => .bad

end Rbql
