/-
  The shallow query parser: operational model of `separate_string_literals`, `combine_string_literals`,
  `remove_redundant_input_table_name`, `locate_statements`, `separate_actions`, `find_top` and
  `parse_join_expression` of rbql_engine.py.  The regular expressions are replaced by deterministic
  scanners; their equality with Python's `re` on these patterns is established by the correspondence
  (exhaustive short strings), not proved.  IMPORT-FREE, executable.
-/
import Rbql.Model.Sources
namespace Rbql

/-! ### string literals -/

/-- does `d` occur in `s` (anywhere)? -/
def occursIn (d : Str) : Str → Bool
  | [] => d.isEmpty
  | c :: cs => d.isPrefixOf (c :: cs) || occursIn d cs

/-- length of the run of backslashes at the head -/
def bsRun : Str → Nat
  | c :: cs => if c = '\\' then bsRun cs + 1 else 0
  | [] => 0

/-- body of a literal delimited by `d`, started right after the opening delimiter: the text after the closing
delimiter, or `none`.  `prevBs` = the previous character is a backslash (the regex's `(?<!\\)` look-behind).
Mirrors the lazy `((?<!\\)(\\\\)*\\\1|.)*?\1` with its backtracking: an escaped delimiter (odd backslash run +
delimiter, not preceded by a backslash) is skipped as a unit only if the delimiter occurs again later on the same line;
otherwise one character is consumed (never a line feed). -/
def literalBody (d : Str) : Nat → Str → Bool → Option Str
  | 0, _, _ => none
  | fuel + 1, s, prevBs =>
    if d.isPrefixOf s then some (s.drop d.length)
    else match s with
      | [] => none
      | c :: cs =>
        let run := bsRun s
        if c = '\\' ∧ !prevBs ∧ run % 2 = 1 ∧ d.isPrefixOf (s.drop run) ∧ occursIn d ((s.drop (run + d.length)).takeWhile (· != LF)) then
          literalBody d fuel (s.drop (run + d.length)) false
        else if c = LF then none
        else literalBody d fuel cs (c = '\\')

def DELIMS : List Str := [['"', '"', '"'], ['\'', '\'', '\''], ['"'], ['\'']]

/-- try the four delimiter alternatives in order at the head of `s`: (literal text, rest) -/
def matchLiteral (s : Str) : Option (Str × Str) :=
  DELIMS.findSome? (fun d =>
    if d.isPrefixOf s then
      (literalBody d (s.length + 1) (s.drop d.length) false).map (fun rest => (s.take (s.length - rest.length), rest))
    else none)

/-- `re.finditer`: the format parts and the literals; `cur` = text since the last literal, reversed -/
def separateAux : Nat → Str → Str → List Str → List Str → List Str × List Str
  | 0, _, cur, parts, lits => ((cur.reverse :: parts).reverse, lits.reverse)
  | _ + 1, [], cur, parts, lits => ((cur.reverse :: parts).reverse, lits.reverse)
  | fuel + 1, c :: cs, cur, parts, lits =>
    match matchLiteral (c :: cs) with
    | some (lit, rest) => separateAux fuel rest [] (cur.reverse :: parts) (lit :: lits)
    | none => separateAux fuel cs (c :: cur) parts lits

def placeholder (i : Nat) : Str := "___RBQL_STRING_LITERAL".toList ++ (toString i).toList ++ "___".toList

def interleaveParts : List Str → Nat → Str
  | [], _ => []
  | [p], _ => p
  | p :: ps, i => p ++ placeholder i ++ interleaveParts ps (i + 1)

/-- `separate_string_literals`: (format expression with tabs turned into spaces, literals) -/
def separateLiterals (s : Str) : Str × List Str :=
  let (parts, lits) := separateAux (s.length + 1) s [] [] []
  ((interleaveParts parts 0).map (fun c => if c = '\t' then ' ' else c), lits)

/-- `str.replace(old, new)` (all non-overlapping occurrences, left to right; `old` non-empty) -/
def replaceAll (old new : Str) : Nat → Str → Str
  | 0, s => s
  | _ + 1, [] => []
  | fuel + 1, c :: cs =>
    if old.isPrefixOf (c :: cs) ∧ old ≠ [] then new ++ replaceAll old new fuel ((c :: cs).drop old.length)
    else c :: replaceAll old new fuel cs

/-- `combine_string_literals`: sequential replacement of placeholder 0, 1, … -/
def combineLiterals (expr : Str) (lits : List Str) : Str :=
  (lits.zipIdx).foldl (fun e p => replaceAll (placeholder p.2) p.1 (e.length + 1) e) expr

/-! ### keyword search -/

def lowerChar (c : Char) : Char := if 'A' ≤ c ∧ c ≤ 'Z' then Char.ofNat (c.toNat + 32) else c

/-- case-insensitive (ASCII) prefix test -/
def ciPrefix : Str → Str → Bool
  | [], _ => true
  | _ :: _, [] => false
  | k :: ks, c :: cs => lowerChar k == lowerChar c && ciPrefix ks cs

def dropSpaces (s : Str) : Str := s.dropWhile (· == ' ')

/-- match the words of a statement separated by ` *` at the head of `s`: the rest after the last word -/
def matchWords : List Str → Str → Option Str
  | [], s => some s
  | [w], s => if ciPrefix w s then some (s.drop w.length) else none
  | w :: ws, s => if ciPrefix w s then matchWords ws (dropSpaces (s.drop w.length)) else none

/-- one match of `(?i)(?:^| )STATEMENT(?= )` at offset `pos` of the text whose suffix is `s`: (start, end) -/
def kwMatchAt (words : List Str) (pos : Nat) (atStart : Bool) (s : Str) : Option (Nat × Nat) :=
  let tryAt (start : Nat) (kwAt : Nat) (t : Str) : Option (Nat × Nat) :=
    match matchWords words t with
    | some rest => if rest.head? = some ' ' then some (start, kwAt + (t.length - rest.length)) else none
    | none => none
  match (if atStart then tryAt pos pos s else none) with
  | some m => some m
  | none => match s with
    | ' ' :: t => tryAt pos (pos + 1) t
    | _ => none

/-- `re.finditer` of the statement pattern: all non-overlapping matches, left to right -/
def kwMatches (words : List Str) : Nat → Nat → Str → List (Nat × Nat)
  | 0, _, _ => []
  | _ + 1, _, [] => []
  | fuel + 1, pos, c :: cs =>
    match kwMatchAt words pos (pos == 0) (c :: cs) with
    | some (st, en) =>
      if en > pos then (st, en) :: kwMatches words fuel en ((c :: cs).drop (en - pos))
      else (st, en) :: kwMatches words fuel (pos + 1) cs
    | none => kwMatches words fuel (pos + 1) cs

inductive Stmt
  | strictLeftJoin | leftOuterJoin | leftJoin | innerJoin | join | select | orderBy | where_ | update | groupBy | limit | except | from
  deriving DecidableEq, Repr

def Stmt.words : Stmt → List Str
  | .strictLeftJoin => ["STRICT".toList, "LEFT".toList, "JOIN".toList]
  | .leftOuterJoin => ["LEFT".toList, "OUTER".toList, "JOIN".toList]
  | .leftJoin => ["LEFT".toList, "JOIN".toList]
  | .innerJoin => ["INNER".toList, "JOIN".toList]
  | .join => ["JOIN".toList]
  | .select => ["SELECT".toList]
  | .orderBy => ["ORDER".toList, "BY".toList]
  | .where_ => ["WHERE".toList]
  | .update => ["UPDATE".toList]
  | .groupBy => ["GROUP".toList, "BY".toList]
  | .limit => ["LIMIT".toList]
  | .except => ["EXCEPT".toList]
  | .from => ["FROM".toList]

/-- `default_statement_groups` minus `[FROM]` (the input table is fixed by the caller) -/
def statementGroups : List (List Stmt) :=
  [[.strictLeftJoin, .leftOuterJoin, .leftJoin, .innerJoin, .join], [.select], [.orderBy], [.where_], [.update], [.groupBy], [.limit], [.except]]

inductive ParseError
  | moreThanOne (s : Stmt)
  | updateNotFirst | selectNotFirst | noSelectNoUpdate | bothSelectUpdate
  | limitNotInt | invalidJoin
  deriving DecidableEq, Repr

/-- first statement of the group that occurs; more than one occurrence of it is an error -/
def locateGroup (expr : Str) : List Stmt → Except ParseError (Option (Nat × Nat × Stmt))
  | [] => .ok none
  | st :: rest =>
    match kwMatches st.words (expr.length + 1) 0 expr with
    | [] => locateGroup expr rest
    | [(a, b)] => .ok (some (a, b, st))
    | _ => .error (.moreThanOne st)

def insertSorted (x : Nat × Nat × Stmt) : List (Nat × Nat × Stmt) → List (Nat × Nat × Stmt)
  | [] => [x]
  | y :: ys => if x.1 < y.1 ∨ (x.1 = y.1 ∧ x.2.1 ≤ y.2.1) then x :: y :: ys else y :: insertSorted x ys

/-- `locate_statements`: (start, end, statement) sorted by position -/
def locateStatements (expr : Str) : Except ParseError (List (Nat × Nat × Stmt)) := do
  let found ← statementGroups.mapM (locateGroup expr)
  pure ((found.filterMap id).foldl (fun acc x => insertSorted x acc) [])

/-! ### separate_actions -/

def stripSp (s : Str) : Str := ((s.dropWhile (· == ' ')).reverse.dropWhile (· == ' ')).reverse

structure Action where
  stmt : Stmt                       -- JOIN family collapsed to `.join`
  text : Str
  joinSubtype : Option Stmt := none
  reverse : Option Bool := none
  top : Option Nat := none
  distinct : Bool := false
  distinctCount : Bool := false
  deriving DecidableEq, Repr

structure Actions where
  withModifier : Option Str := none
  actions : List Action := []
  deriving DecidableEq, Repr

def isLowerLetter (c : Char) : Bool := 'a' ≤ c ∧ c ≤ 'z'
def isDigit (c : Char) : Bool := '0' ≤ c ∧ c ≤ '9'

/-- `^(.*)  *[Ww][Ii][Tt][Hh] *\(([a-z]{4,20})\) *$` on the reversed text -/
def splitWith (expr : Str) : Option (Str × Str) :=
  let r := (expr.reverse.dropWhile (· == ' '))
  match r with
  | ')' :: r1 =>
    let word := r1.takeWhile isLowerLetter
    let r2 := r1.dropWhile isLowerLetter
    if word.length < 4 ∨ word.length > 20 then none else
    match r2 with
    | '(' :: r3 =>
      let r4 := r3.dropWhile (· == ' ')
      if ciPrefix "htiw".toList r4 then
        match r4.drop 4 with
        | ' ' :: r5 => some (r5.reverse, word.reverse)
        | _ => none
      else none
    | _ => none
  | _ => none

/-- `re.sub('(?i) <WORD> *$', '', span)` -/
def dropTrailingWord (w : Str) (span : Str) : Option Str :=
  let r := span.reverse.dropWhile (· == ' ')
  if ciPrefix w.reverse r then
    match r.drop w.length with
    | ' ' :: r2 => some r2.reverse
    | _ => none
  else none

def parseNat (s : Str) : Nat := s.foldl (fun a c => a * 10 + (c.toNat - '0'.toNat)) 0

/-- `re.match('(?i)^ *TOP *([0-9]+) ', span)`: (top, rest of span) -/
def matchTop (span : Str) : Option (Nat × Str) :=
  let s1 := dropSpaces span
  if ciPrefix "TOP".toList s1 then
    let s2 := dropSpaces (s1.drop 3)
    let digits := s2.takeWhile isDigit
    let s3 := s2.dropWhile isDigit
    if digits = [] then none else
    match s3 with
    | ' ' :: s4 => some (parseNat digits, s4)
    | _ => none
  else none

/-- `re.match('(?i)^ *DISTINCT *(COUNT)? ', span)`: (is count, rest of span) -/
def matchDistinct (span : Str) : Option (Bool × Str) :=
  let s1 := dropSpaces span
  if ciPrefix "DISTINCT".toList s1 then
    let s2 := s1.drop 8
    let s3 := dropSpaces s2
    if ciPrefix "COUNT".toList s3 ∧ (s3.drop 5).head? = some ' ' then some (true, s3.drop 6)
    else if s2.head? = some ' ' then some (false, s3)
    else none
  else none

def buildAction (expr : Str) (start spanStart spanEnd : Nat) (st : Stmt) : Except ParseError Action :=
  let span := (expr.drop spanStart).take (spanEnd - spanStart)
  match st with
  | .strictLeftJoin | .leftOuterJoin | .leftJoin | .innerJoin | .join =>
    .ok { stmt := .join, text := pyStrip span, joinSubtype := some st }
  | .update =>
    if start ≠ 0 then .error .updateNotFirst
    else
      let s1 := dropSpaces span
      let span' := if ciPrefix "SET ".toList s1 then s1.drop 4 else span
      .ok { stmt := .update, text := pyStrip span' }
  | .orderBy =>
    let span1 := (dropTrailingWord "ASC".toList span).getD span
    match dropTrailingWord "DESC".toList span1 with
    | some s => .ok { stmt := .orderBy, text := pyStrip s, reverse := some true }
    | none => .ok { stmt := .orderBy, text := pyStrip span1, reverse := some false }
  | .select =>
    if start ≠ 0 then .error .selectNotFirst
    else
      let (top, span1) := match matchTop span with | some (n, r) => (some n, r) | none => (none, span)
      let (dist, cnt, span2) := match matchDistinct span1 with | some (c, r) => (true, c, r) | none => (false, false, span1)
      .ok { stmt := .select, text := pyStrip span2, top := top, distinct := dist, distinctCount := cnt }
  | s => .ok { stmt := s, text := pyStrip span }

def buildActions (expr : Str) : List (Nat × Nat × Stmt) → Except ParseError (List Action)
  | [] => .ok []
  | [(a, b, st)] => do let x ← buildAction expr a b expr.length st; pure [x]
  | (a, b, st) :: (a2, b2, st2) :: rest => do
    let x ← buildAction expr a b a2 st
    let xs ← buildActions expr ((a2, b2, st2) :: rest)
    pure (x :: xs)

/-- `separate_actions(statement_groups, rbql_expression)`; the result is a dict, so actions are kept in a canonical (statement) order -/
def separateActions (expr0 : Str) : Except ParseError Actions := do
  let expr := stripSp expr0
  let (expr, w) := match splitWith expr with | some (e, w) => (e, some w) | none => (expr, none)
  let located ← locateStatements expr
  let acts ← buildActions expr located
  let hasSel := acts.any (·.stmt == .select)
  let hasUpd := acts.any (·.stmt == .update)
  if !hasSel && !hasUpd then .error .noSelectNoUpdate
  else if hasSel && hasUpd then .error .bothSelectUpdate
  else pure { withModifier := w, actions := acts }

/-! ### redundant table name, TOP/LIMIT, JOIN … ON … -/

/-- `re.sub(' +from +a(?: +|$)', ' ', q, flags=re.IGNORECASE).strip()` -/
def removeFromA : Nat → Str → Str
  | 0, s => s
  | _ + 1, [] => []
  | fuel + 1, c :: cs =>
    if c = ' ' then
      let s1 := dropSpaces (c :: cs)
      if ciPrefix "from".toList s1 ∧ (s1.drop 4).head? = some ' ' then
        let s2 := dropSpaces (s1.drop 4)
        if ciPrefix "a".toList s2 then
          let s3 := s2.drop 1
          if s3 = [] then [' ']
          else if s3.head? = some ' ' then ' ' :: removeFromA fuel (dropSpaces s3)
          else c :: removeFromA fuel cs
        else c :: removeFromA fuel cs
      else c :: removeFromA fuel cs
    else c :: removeFromA fuel cs

/-- `re.sub('^ *update +a +set ', 'update ', q, flags=re.IGNORECASE).strip()` -/
def removeUpdateA (s : Str) : Str :=
  let s1 := dropSpaces s
  if ciPrefix "update".toList s1 ∧ (s1.drop 6).head? = some ' ' then
    let s2 := dropSpaces (s1.drop 6)
    if ciPrefix "a".toList s2 ∧ (s2.drop 1).head? = some ' ' then
      let s3 := dropSpaces (s2.drop 1)
      if ciPrefix "set ".toList s3 then "update ".toList ++ s3.drop 4 else s
    else s
  else s

def removeRedundantTableName (q : Str) : Str :=
  pyStrip (removeUpdateA (pyStrip (removeFromA (q.length + 1) q)))

/-- the JOIN clause text: table id and the pairs of variable names -/
def takeVar (s : Str) : Str × Str := (s.takeWhile (fun c => c != ' ' && c != '='), s.dropWhile (fun c => c != ' ' && c != '='))

def parseJoinPairs : Nat → Str → Except ParseError (List (Str × Str))
  | 0, _ => .error .invalidJoin
  | fuel + 1, s =>
    let (v1, r1) := takeVar s
    if v1 = [] then .error .invalidJoin else
    let r2 := dropSpaces r1
    match r2 with
    | '=' :: r3 =>
      let r4 := match r3 with | '=' :: r => r | _ => r3
      let r5 := dropSpaces r4
      let (v2, r6) := takeVar r5
      if v2 = [] then .error .invalidJoin
      else if r6 = [] then .ok [(v1, v2)]
      else
        let r7 := dropSpaces r6
        if r6.head? = some ' ' ∧ ciPrefix "and".toList r7 ∧ (r7.drop 3).head? = some ' ' then do
          let rest ← parseJoinPairs fuel (dropSpaces (r7.drop 3))
          pure ((v1, v2) :: rest)
        else .error .invalidJoin
    | _ => .error .invalidJoin

/-- `parse_join_expression(src)` -/
def parseJoinExpression (src : Str) : Except ParseError (Str × List (Str × Str)) :=
  let s := pyStrip src
  let tid := s.takeWhile (· != ' ')
  let r1 := s.dropWhile (· != ' ')
  let r2 := dropSpaces r1
  if tid = [] ∨ r1.head? ≠ some ' ' ∨ !ciPrefix "on".toList r2 ∨ (r2.drop 2).head? ≠ some ' ' then .error .invalidJoin
  else do
    let pairs ← parseJoinPairs (s.length + 1) (dropSpaces (r2.drop 2))
    pure (tid, pairs)

end Rbql
