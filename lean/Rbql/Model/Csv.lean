/-
  CSV dialect: operational model of `csv_utils.py` / `csv_utils.js`
  (`split_quoted_str`, `extract_next_field`, `split_whitespace_separated_str`, `smart_split`,
  `quote_field`, `rfc_quote_field`, `unquote_field`).  IMPORT-FREE, executable.
-/
import Rbql.Model.Basic
namespace Rbql

inductive Policy | simple | quoted | quotedRfc | whitespace | monocolumn
  deriving DecidableEq, Repr

/-- `src.replace('"', '""')` -/
def escapeQ : Str → Str
  | [] => []
  | c :: cs => if c = QUOTE then QUOTE :: QUOTE :: escapeQ cs else c :: escapeQ cs

/-- The body of the field regex `"((?:[^"]*"")*[^"]*)"`, started right after the opening quote.
Returns the group-1 text with `""` already replaced by `"`, and the text after the closing quote.
The regex is greedy in the number of `""` pairs and backtracks to an earlier closing quote when
the greedy attempt cannot close: this is the `none => some ([], cs)` branch. -/
def scanBody : Str → Option (Str × Str)
  | [] => none
  | c :: cs =>
    if c = QUOTE then
      match cs with
      | [] => some ([], [])
      | c2 :: cs2 =>
        if c2 = QUOTE then
          match scanBody cs2 with
          | some (x, r) => some (QUOTE :: x, r)
          | none => some ([], cs)
        else some ([], cs)
    else
      match scanBody cs with
      | some (x, r) => some (c :: x, r)
      | none => none

/-- `rgx.match(src, cidx)` on the suffix `s = src[cidx:]`, with (`ws = true`) or without the
surrounding ` *`.  Returns (unescaped content, text after the match). -/
def matchQuoted (ws : Bool) (s : Str) : Option (Str × Str) :=
  let s1 := if ws then (spanSpaces s).2 else s
  match s1 with
  | [] => none
  | c :: s2 =>
    if c = QUOTE then
      match scanBody s2 with
      | some (content, s3) => some (content, if ws then (spanSpaces s3).2 else s3)
      | none => none
    else none

/-- One call of `extract_next_field` on the suffix `s = src[cidx:]` (non-empty).
Result: the appended field, the warning flag, and what follows:
`none` — the field ran to the end of the line (`cidx` jumps past `len(src)`);
`some r` — a delimiter was consumed and `r` is the rest of the line (possibly empty). -/
def nextField (d : Str) (ws pres : Bool) (s : Str) : Str × Bool × Option Str :=
  let unq (w : Bool) : Str × Bool × Option Str :=
    let r := findD d s
    (r.1, w || r.1.contains QUOTE, r.2)
  match matchQuoted ws s with
  | some (content, rest) =>
    let fld := if pres then s.take (s.length - rest.length) else content
    if rest = [] then (fld, false, none)
    else if d.isPrefixOf rest then (fld, false, some (rest.drop d.length))
    else unq true
  | none => unq false

/-- The `while cidx < len(src)` loop of `split_quoted_str` plus the trailing-empty-field rule
(`cidx == len(src)` after the loop), on the suffix `s` (non-empty at every call). -/
def splitFrom (d : Str) (ws pres : Bool) (s : Str) : List Str × Bool :=
  match nextField d ws pres s with
  | (f, w, none) => ([f], w)
  | (f, w, some []) => ([f, []], w)
  | (f, w, some (c :: r)) =>
    if hlt : (c :: r).length < s.length then
      let rec_ := splitFrom d ws pres (c :: r)
      (f :: rec_.1, w || rec_.2)
    else ([f], w)
termination_by s.length

/-- `split_quoted_str(src, dlm, preserve_quotes_and_whitespaces)` -/
def splitQuotedStr (d : Str) (pres : Bool) (s : Str) : List Str × Bool :=
  if s.contains QUOTE then splitFrom d (d != [SPACE]) pres s
  else (splitOn d s, false)

/-- tokens of the regex `[^ ]+` (`pres = false`) -/
def wsTokens : Str → Str → List Str   -- (remaining, current token reversed)
  | [], cur => if cur = [] then [] else [cur.reverse]
  | c :: cs, cur =>
    if c = SPACE then (if cur = [] then wsTokens cs [] else cur.reverse :: wsTokens cs [])
    else wsTokens cs (c :: cur)

/-- matches of the regex ` *[^ ]+ *` (finditer), i.e. leading spaces, a token, trailing spaces. -/
def wsTokensPres : Str → Str → Bool → List Str   -- (remaining, current reversed, token seen)
  | [], cur, seen => if seen then [cur.reverse] else []
  | c :: cs, cur, seen =>
    if c = SPACE then wsTokensPres cs (c :: cur) seen
    else if seen && cur.head? == some SPACE then cur.reverse :: wsTokensPres cs [c] true
    else wsTokensPres cs (c :: cur) true

def dropLastChar (s : Str) : Str := s.dropLast

def mapAllButLast (f : Str → Str) : List Str → List Str
  | [] => []
  | [x] => [x]
  | x :: xs => f x :: mapAllButLast f xs

/-- `split_whitespace_separated_str` -/
def splitWhitespace (pres : Bool) (s : Str) : List Str :=
  if pres then mapAllButLast dropLastChar (wsTokensPres s [] false) else wsTokens s []

/-- `smart_split(src, dlm, policy, preserve)` -/
def smartSplit (d : Str) (p : Policy) (pres : Bool) (s : Str) : List Str × Bool :=
  match p with
  | .simple => (splitOn d s, false)
  | .whitespace => (splitWhitespace pres s, false)
  | .monocolumn => ([s], false)
  | .quoted | .quotedRfc => splitQuotedStr d pres s

/-- `quote_field` — Python's two-step condition; the JS single condition gives the same text. -/
def quoteField (d : Str) (f : Str) : Str :=
  if f.contains QUOTE then QUOTE :: escapeQ f ++ [QUOTE]
  else if containsD d f then QUOTE :: f ++ [QUOTE]
  else f

def quoteFieldJs (d : Str) (f : Str) : Str :=
  if containsD d f || f.contains QUOTE then QUOTE :: escapeQ f ++ [QUOTE] else f

def rfcQuoteField (d : Str) (f : Str) : Str :=
  if f.contains QUOTE then QUOTE :: escapeQ f ++ [QUOTE]
  else if containsD d f || f.contains LF || f.contains CR then QUOTE :: f ++ [QUOTE]
  else f

def rfcQuoteFieldJs (d : Str) (f : Str) : Str :=
  if containsD d f || f.contains QUOTE || f.contains LF || f.contains CR
  then QUOTE :: escapeQ f ++ [QUOTE] else f

/-- all `"` of `s` come in adjacent pairs; returns the text with pairs collapsed -/
def unescapePairs : Str → Option Str
  | [] => some []
  | c :: cs =>
    if c = QUOTE then
      match cs with
      | [] => none
      | c2 :: cs2 => if c2 = QUOTE then (unescapePairs cs2).map (QUOTE :: ·) else none
    else (unescapePairs cs).map (c :: ·)

/-- `unquote_field`: `^ *"((?:[^"]*"")*[^"]*)" *$` (JS `$`; Python's `$` also accepts one final LF,
which `pyDollar = true` models). -/
def unquoteField (pyDollar : Bool) (f : Str) : Str :=
  let core0 := if pyDollar && f.getLast? == some LF then f.dropLast else f
  let core := stripSpaces core0
  match core with
  | c :: rest =>
    if c = QUOTE ∧ rest.getLast? = some QUOTE then
      match unescapePairs rest.dropLast with
      | some x => x
      | none => f
    else f
  | [] => f

end Rbql
