/-
  CSV writer: operational model of `rbql_csv.CSVWriter` (Python) and of the rbql-js `CSVWriter`
  (which differ only in how the "separator inside a simple field" warning is computed).
  IMPORT-FREE, executable.
-/
import Rbql.Model.Csv
namespace Rbql

structure WCfg where
  delim : Str
  policy : Policy
  lineSep : Str := [LF]
  js : Bool := false

structure WState where
  out : Str := []
  noneSeen : Bool := false
  delimInSimple : Bool := false
  headerLen : Option Nat := none

inductive WriteErr
  | mono                     -- 'Unable to use "Monocolumn" output format: some records have more than one field'
  | width (hl n : Nat)       -- 'Inconsistent number of columns in output header and the current record'
  deriving DecidableEq, Repr

/-- `normalize_fields` on string-or-None cells: `None` becomes `''` and sets the flag. -/
def normalizeCells (fs : List (Option Str)) : List Str × Bool :=
  (fs.map (fun c => c.getD []), fs.any (fun c => c.isNone))

/-- `CSVWriter.write` -/
def writeRec (c : WCfg) (st : WState) (fields : List (Option Str)) : Except WriteErr WState :=
  match st.headerLen with
  | some hl => if fields.length ≠ hl then .error (.width hl fields.length) else go
  | none => go
where
  go : Except WriteErr WState :=
    let (fs, sawNone) := normalizeCells fields
    let st := { st with noneSeen := st.noneSeen || sawNone }
    match c.policy with
    | .quoted =>
      .ok { st with out := st.out ++ joinD c.delim (fs.map (quoteField c.delim)) ++ c.lineSep }
    | .quotedRfc =>
      .ok { st with out := st.out ++ joinD c.delim (fs.map (rfcQuoteField c.delim)) ++ c.lineSep }
    | .monocolumn =>
      if fs.length > 1 then .error .mono
      else .ok { st with out := st.out ++ fs.headD [] ++ c.lineSep }
    | .simple | .whitespace =>
      let line := joinD c.delim fs
      -- Python: output_line.count(delim) + 1 != len(fields); rbql-js (after its fix): res.split(delim).length != fields.length — the same test
      let warn := countD c.delim line + 1 != fs.length
      .ok { st with out := st.out ++ line ++ c.lineSep, delimInSimple := st.delimInSimple || warn }

/-- `set_header` followed by `write` of every record (`_write_all`) -/
def writeAll (c : WCfg) (header : Option (List Str)) (table : List (List (Option Str))) :
    Except WriteErr WState := do
  let st0 : WState := {}
  let st1 ← match header with
    | some h => writeRec c { st0 with headerLen := some h.length } (h.map some)
    | none => pure st0
  table.foldlM (writeRec c) st1

/-! ### list-valued cells (`normalize_fields` recursion)

A cell handed to `write` is None, a string, or a list (UNNEST-less `split`, ARRAY_AGG, a user list
literal …).  `normalize_fields` recurses into the list, turning every None inside it into `''` AND
setting the same None flag, then joins the items with `sub_array_delim` (`|`, or `;` when the
delimiter itself is `|`). -/

inductive Cell
  | none
  | str (s : Str)
  | list (xs : List (Option Str))
  deriving Repr

def subArrayDelim (d : Str) : Str := if d = ['|'] then [';'] else ['|']

/-- the cell after normalisation, as the flat writer sees it -/
def Cell.flat (d : Str) : Cell → Option Str
  | .none => Option.none
  | .str s => some s
  | .list xs => some (joinD (subArrayDelim d) (xs.map (fun c => c.getD [])))

/-- does normalising this cell meet a None at the top level or inside the list? -/
def Cell.hasNone : Cell → Bool
  | .none => true
  | .str _ => false
  | .list xs => xs.any (fun c => c.isNone)

/-- None INSIDE a list cell (the flat layer cannot see it any more) -/
def Cell.nestedNone : Cell → Bool
  | .list xs => xs.any (fun c => c.isNone)
  | _ => false

/-- `CSVWriter.write` on general cells -/
def writeRecCells (c : WCfg) (st : WState) (cells : List Cell) : Except WriteErr WState :=
  writeRec c { st with noneSeen := st.noneSeen || cells.any Cell.nestedNone } (cells.map (Cell.flat c.delim))

def writeAllCells (c : WCfg) (header : Option (List Str)) (table : List (List Cell)) :
    Except WriteErr WState := do
  let st0 : WState := {}
  let st1 ← match header with
    | some h => writeRec c { st0 with headerLen := some h.length } (h.map some)
    | none => pure st0
  table.foldlM (writeRecCells c) st1

end Rbql
