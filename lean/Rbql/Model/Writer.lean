/-
  CSV writer: operational model of `rbql_csv.CSVWriter` (Python) and of the rbql-js `CSVWriter`
  (which differ only in how the "separator inside a simple field" warning is computed).
  IMPORT-FREE, executable.
-/
import Rbql.Model.Csv
namespace Rbql

structure WCfg where
  delim : Str
  policy : Policy
  lineSep : Str := [LF]
  js : Bool := false

structure WState where
  out : Str := []
  noneSeen : Bool := false
  delimInSimple : Bool := false
  headerLen : Option Nat := none

inductive WriteErr
  | mono                     -- 'Unable to use "Monocolumn" output format: some records have more than one field'
  | width (hl n : Nat)       -- 'Inconsistent number of columns in output header and the current record'
  deriving DecidableEq, Repr

/-- `normalize_fields` on string-or-None cells: `None` becomes `''` and sets the flag. -/
def normalizeCells (fs : List (Option Str)) : List Str × Bool :=
  (fs.map (fun c => c.getD []), fs.any (fun c => c.isNone))

/-- `CSVWriter.write` -/
def writeRec (c : WCfg) (st : WState) (fields : List (Option Str)) : Except WriteErr WState :=
  match st.headerLen with
  | some hl => if fields.length ≠ hl then .error (.width hl fields.length) else go
  | none => go
where
  go : Except WriteErr WState :=
    let (fs, sawNone) := normalizeCells fields
    let st := { st with noneSeen := st.noneSeen || sawNone }
    match c.policy with
    | .quoted =>
      .ok { st with out := st.out ++ joinD c.delim (fs.map (quoteField c.delim)) ++ c.lineSep }
    | .quotedRfc =>
      .ok { st with out := st.out ++ joinD c.delim (fs.map (rfcQuoteField c.delim)) ++ c.lineSep }
    | .monocolumn =>
      if fs.length > 1 then .error .mono
      else .ok { st with out := st.out ++ fs.headD [] ++ c.lineSep }
    | .simple | .whitespace =>
      let line := joinD c.delim fs
      -- Python: output_line.count(delim) + 1 != len(fields); rbql-js (after its fix): res.split(delim).length != fields.length — the same test
      let warn := countD c.delim line + 1 != fs.length
      .ok { st with out := st.out ++ line ++ c.lineSep, delimInSimple := st.delimInSimple || warn }

/-- `set_header` followed by `write` of every record (`_write_all`) -/
def writeAll (c : WCfg) (header : Option (List Str)) (table : List (List (Option Str))) :
    Except WriteErr WState := do
  let st0 : WState := {}
  let st1 ← match header with
    | some h => writeRec c { st0 with headerLen := some h.length } (h.map some)
    | none => pure st0
  table.foldlM (writeRec c) st1

end Rbql
