/-
  Basic string machinery shared by every model file.  IMPORT-FREE (core Lean only), executable.
  All string reasoning is done on `List Char`; `String` appears only at the driver edge.
-/
namespace Rbql

abbrev Str := List Char

def QUOTE : Char := '"'
def SPACE : Char := ' '
def LF : Char := '\n'
def CR : Char := '\r'

/-- `findD d s` mirrors `s.find(d)` followed by slicing: the text before the first (left-most)
occurrence of `d`, and `some` of the text after it (`none` when `d` does not occur). -/
def findD (d : Str) : Str → Str × Option Str
  | [] => ([], none)
  | c :: cs =>
    if d.isPrefixOf (c :: cs) then ([], some ((c :: cs).drop d.length))
    else let r := findD d cs; (c :: r.1, r.2)

theorem findD_rest_length (d : Str) (s b r : Str) (h : findD d s = (b, some r)) :
    r.length + d.length ≤ s.length := by
  induction s generalizing b r with
  | nil => simp [findD] at h
  | cons c cs ih =>
    unfold findD at h
    split at h
    · rename_i hp
      simp only [Prod.mk.injEq, Option.some.injEq] at h
      obtain ⟨_, rfl⟩ := h
      have := List.IsPrefix.length_le (List.isPrefixOf_iff_prefix.mp hp)
      simp only [List.length_drop]; omega
    · simp only [Prod.mk.injEq] at h
      obtain ⟨_, h2⟩ := h
      have := ih (findD d cs).1 r (by rw [← h2])
      simp only [List.length_cons]; omega

/-- Python `s.split(d)` for a non-empty `d`: left-most non-overlapping occurrences. -/
def splitOn (d : Str) (s : Str) : List Str :=
  match h : findD d s with
  | (b, none) => [b]
  | (b, some r) => if hlt : r.length < s.length then b :: splitOn d r else [b]
termination_by s.length

/-- `d.join(fields)` -/
def joinD (d : Str) : List Str → Str
  | [] => []
  | [f] => f
  | f :: fs => f ++ d ++ joinD d fs

def containsD (d s : Str) : Bool := (findD d s).2.isSome

/-- `s.count(d)` for non-empty `d` (non-overlapping, left to right). -/
def countD (d s : Str) : Nat := (splitOn d s).length - 1

def startsWith (p s : Str) : Bool := p.isPrefixOf s

def spanSpaces (s : Str) : Str × Str := (s.takeWhile (· == SPACE), s.dropWhile (· == SPACE))

def stripSpaces (s : Str) : Str := ((s.dropWhile (· == SPACE)).reverse.dropWhile (· == SPACE)).reverse

end Rbql
