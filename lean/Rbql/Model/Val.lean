/-
  Values, records, environments and the concrete expression vocabulary of the engine model.
  IMPORT-FREE, executable.
-/
import Rbql.Model.Like
namespace Rbql

/-- scalar cell values (Python None / str / number / bool); numbers are exact rationals -/
inductive Atom
  | none
  | str (s : Str)
  | num (q : Rat)
  | bool (b : Bool)
  deriving DecidableEq, Repr

/-- a value: a scalar or a flat list of scalars (result of `split`, argument of UNNEST, ARRAY_AGG) -/
inductive Val
  | at (a : Atom)
  | list (xs : List Atom)
  deriving DecidableEq, Repr

abbrev Row := List Val
abbrev Table := List Row

def Val.none : Val := .at .none
def Val.str (s : Str) : Val := .at (.str s)
def Val.num (q : Rat) : Val := .at (.num q)
def Val.bool (b : Bool) : Val := .at (.bool b)
def Val.nat (n : Nat) : Val := .at (.num (n : Rat))

/-- `record[idx] if idx < len(record) else None` -/
def safeGet (r : Row) (i : Nat) : Val := r.getD i Val.none

/-! ### ordering (Python `<` on same-typed values; made total by a rank so that sorting is defined) -/

def strCmp : Str → Str → Ordering
  | [], [] => .eq
  | [], _ :: _ => .lt
  | _ :: _, [] => .gt
  | a :: as, b :: bs => if a.toNat < b.toNat then .lt else if b.toNat < a.toNat then .gt else strCmp as bs

def Atom.rank : Atom → Nat
  | .none => 0 | .bool _ => 1 | .num _ => 2 | .str _ => 3

def atomCmp : Atom → Atom → Ordering
  | .str a, .str b => strCmp a b
  | .num a, .num b => if a < b then .lt else if b < a then .gt else .eq
  | .bool a, .bool b => compare a.toNat b.toNat
  | x, y => compare x.rank y.rank

def atomsCmp : List Atom → List Atom → Ordering
  | [], [] => .eq
  | [], _ :: _ => .lt
  | _ :: _, [] => .gt
  | a :: as, b :: bs => match atomCmp a b with | .eq => atomsCmp as bs | o => o

def valCmp : Val → Val → Ordering
  | .at a, .at b => atomCmp a b
  | .list a, .list b => atomsCmp a b
  | .at _, .list _ => .lt
  | .list _, .at _ => .gt

/-- Python tuple comparison: lexicographic -/
def keyCmp : List Val → List Val → Ordering
  | [], [] => .eq
  | [], _ :: _ => .lt
  | _ :: _, [] => .gt
  | a :: as, b :: bs => match valCmp a b with | .eq => keyCmp as bs | o => o

def keyLe (a b : List Val) : Bool := keyCmp a b != .gt

/-! ### environments and errors -/

structure Env where
  nr : Nat                       -- NR
  a : Row                        -- record_a
  bnr : Option Nat := none       -- bNR (None without a partner)
  b : Option Row := none         -- record_b (None without join / without a partner in UPDATE)
  nu : Nat := 0                  -- NU

/-- what can go wrong while evaluating user code on one record -/
inductive ErrKind
  | exc                          -- any Python/JS exception (TypeError, ...): 'At record N, Details: …'
  | badField (idx : Nat)         -- InternalBadFieldError(idx): 'No "a{idx+1}" field at record N'
  | unnestTwice                  -- RbqlParsingError('Only one UNNEST is allowed per query')
  deriving DecidableEq, Repr

abbrev Ex (α : Type) := Env → Except ErrKind α

/-- truthiness on which Python and JS agree for the values we generate -/
def Val.truthy : Val → Bool
  | .at .none => false
  | .at (.str s) => !s.isEmpty
  | .at (.num q) => q != 0
  | .at (.bool b) => b
  | .list xs => !xs.isEmpty

/-! ### concrete expression vocabulary (rendered to Python and JS text by the harness) -/

inductive Expr
  | a (i : Nat)                  -- a{i+1} / a[i+1] / a.name …  (safe_get: None when short)
  | b (i : Nat)
  | nr | nf | bnr | nu
  | lit (v : Atom)
  | concat (x y : Expr)          -- str + str
  | add (x y : Expr) | mul (x y : Expr) | mod (x y : Expr)
  | len (x : Expr)
  | eq (x y : Expr) | ne (x y : Expr) | lt (x y : Expr) | le (x y : Expr)
  | and (x y : Expr) | or (x y : Expr) | not (x : Expr)
  | like (x : Expr) (pat : Str)
  | split (x : Expr) (sep : Str)
  | splitNE (x : Expr) (sep : Str)   -- `[t for t in x.split(sep) if t]` / `x.split(sep).filter(t => t)`: may be empty
  deriving Repr

def numOp (f : Rat → Rat → Except ErrKind Rat) (x y : Val) : Except ErrKind Val :=
  match x, y with
  | .at (.num p), .at (.num q) => (f p q).map Val.num
  | _, _ => .error .exc

/-- floor-mod on non-negative integers (the generator only produces those) -/
def ratMod (p q : Rat) : Except ErrKind Rat :=
  if q = 0 then .error .exc
  else if p.den = 1 ∧ q.den = 1 ∧ 0 ≤ p.num ∧ 0 < q.num then .ok ((p.num % q.num : Int) : Rat)
  else .error .exc

def Expr.eval : Expr → Ex Val
  | .a i, e => .ok (safeGet e.a i)
  | .b i, e => .ok (match e.b with | some r => safeGet r i | none => Val.none)
  | .nr, e => .ok (Val.nat e.nr)
  | .nf, e => .ok (Val.nat e.a.length)
  | .bnr, e => .ok (match e.bnr with | some n => Val.nat n | none => Val.none)
  | .nu, e => .ok (Val.nat e.nu)
  | .lit v, _ => .ok (.at v)
  | .concat x y, e => do
    let vx ← x.eval e
    let vy ← y.eval e
    match vx, vy with
    | .at (.str p), .at (.str q) => .ok (Val.str (p ++ q))
    | _, _ => .error .exc
  | .add x y, e => do let vx ← x.eval e; let vy ← y.eval e; numOp (fun p q => .ok (p + q)) vx vy
  | .mul x y, e => do let vx ← x.eval e; let vy ← y.eval e; numOp (fun p q => .ok (p * q)) vx vy
  | .mod x y, e => do let vx ← x.eval e; let vy ← y.eval e; numOp ratMod vx vy
  | .len x, e => do
    let vx ← x.eval e
    match vx with
    | .at (.str s) => .ok (Val.nat s.length)
    | .list xs => .ok (Val.nat xs.length)
    | _ => .error .exc
  | .eq x y, e => do let vx ← x.eval e; let vy ← y.eval e; .ok (Val.bool (vx == vy))
  | .ne x y, e => do let vx ← x.eval e; let vy ← y.eval e; .ok (Val.bool (vx != vy))
  | .lt x y, e => do
    let vx ← x.eval e
    let vy ← y.eval e
    match vx, vy with
    | .at (.str _), .at (.str _) | .at (.num _), .at (.num _) => .ok (Val.bool (valCmp vx vy == .lt))
    | _, _ => .error .exc
  | .le x y, e => do
    let vx ← x.eval e
    let vy ← y.eval e
    match vx, vy with
    | .at (.str _), .at (.str _) | .at (.num _), .at (.num _) => .ok (Val.bool (valCmp vx vy != .gt))
    | _, _ => .error .exc
  | .and x y, e => do
    let vx ← x.eval e
    if vx.truthy then (do let vy ← y.eval e; .ok (Val.bool vy.truthy)) else .ok (Val.bool false)
  | .or x y, e => do
    let vx ← x.eval e
    if vx.truthy then .ok (Val.bool true) else (do let vy ← y.eval e; .ok (Val.bool vy.truthy))
  | .not x, e => do let vx ← x.eval e; .ok (Val.bool (!vx.truthy))
  | .like x pat, e => do
    let vx ← x.eval e
    match vx with
    | .at (.str s) => .ok (Val.bool (likeImpl false s pat))
    | _ => .error .exc
  | .split x sep, e => do
    let vx ← x.eval e
    match vx with
    | .at (.str s) => if sep = [] then .error .exc else .ok (.list ((splitOn sep s).map Atom.str))
    | _ => .error .exc
  | .splitNE x sep, e => do
    let vx ← x.eval e
    match vx with
    | .at (.str s) => if sep = [] then .error .exc else .ok (.list (((splitOn sep s).filter (· ≠ [])).map Atom.str))
    | _ => .error .exc

def Expr.evalBool (x : Expr) : Ex Bool := fun e => (x.eval e).map Val.truthy

def Expr.evalList (x : Expr) : Ex (List Atom) := fun e => do
  match ← x.eval e with
  | .list xs => .ok xs
  | .at (.str s) => .ok (s.map (fun c => Atom.str [c]))      -- iterating a str yields its characters
  | _ => .error .exc

end Rbql
