/-
  What RBQL may do to its sources (C06): the sqlite identifier whitelist and statement builder of
  `SqliteRecordIterator`, `cleanup_query` (which removes every line break from the query text before any
  identifier is cut out of it), and the allocation behaviour of the record-producing code paths.
  IMPORT-FREE, executable.
-/
import Rbql.Model.Basic
namespace Rbql

def isIdentChar (c : Char) : Bool :=
  ('a' ≤ c ∧ c ≤ 'z') || ('A' ≤ c ∧ c ≤ 'Z') || ('0' ≤ c ∧ c ≤ '9') || c = '_'

/-- `re.match('^[a-zA-Z0-9_]*$', table_name)`: Python's `$` also matches before one final line feed -/
def sqliteNameAccepted (t : Str) : Bool :=
  t.all isIdentChar || (t.getLast? == some LF && t.dropLast.all isIdentChar)

/-- `SqliteRecordIterator.__init__`: either an IO-handling error before anything is executed, or exactly this statement -/
def sqliteStatement (t : Str) : Option Str :=
  if sqliteNameAccepted t then some ("SELECT * FROM ".toList ++ t ++ [';']) else none

/-- `strip_comments` + `cleanup_query`: split at LF, strip, drop comment and empty lines, join with one space, rstrip(';') -/
def pyStrip (s : Str) : Str :=
  let ws (c : Char) : Bool := c = ' ' || c = '\t' || c = LF || c = CR || c = Char.ofNat 11 || c = Char.ofNat 12
  ((s.dropWhile ws).reverse.dropWhile ws).reverse

def joinSpace : List Str → Str
  | [] => []
  | [x] => x
  | x :: xs => x ++ ' ' :: joinSpace xs

def cleanupQuery (q : Str) : Str :=
  let lines := (splitOn [LF] q).map pyStrip
  let lines := lines.map (fun l => if l.head? == some '#' then [] else l)
  let lines := lines.filter (fun l => l ≠ [])
  ((joinSpace lines).reverse.dropWhile (· == ';')).reverse

/-- where an emitted record comes from -/
inductive Origin
  | input        -- the caller's row object itself
  | joinRow      -- a row object of the join table
  | fresh        -- a list allocated by the engine for this output record
  deriving DecidableEq, Repr

/-- the record-producing code paths of the engine -/
inductive OutPath
  | selectList          -- `[e1, …] + star_fields + […]`  (list display / concatenation: always a new list)
  | selectStarOnly      -- `[] + star_fields + []`         (concatenation with empty lists still allocates)
  | selectExcept        -- `select_except(record_a, …)`    (builds `result = list()`)
  | unnestExpansion     -- `out_fields = folded_fields[:]`
  | updateCopy          -- `up_fields = record_a[:]`
  | distinctCount       -- `mutable_record = list(record)`
  | aggregateRow        -- `out_fields = [ag.get_final(key) …]`
  deriving DecidableEq, Repr

/-- the object handed to the user's writer on each path (classification of Python's allocation behaviour: modelled, tied dynamically) -/
def OutPath.origin : OutPath → Origin
  | _ => .fresh

/-- in-place mutation points of the code and the object they mutate -/
inductive MutationPoint
  | safeSet             -- `record[idx] = value` on `up_fields`
  | normalizeFields     -- `CSVWriter.normalize_fields(fields)` on the record handed to the writer
  | insertCount         -- `mutable_record.insert(0, cnt)`
  | colorize | quoteFields  -- CSVWriter preprocessing of the record handed to the writer
  deriving DecidableEq, Repr

def MutationPoint.target : MutationPoint → Origin
  | .safeSet => OutPath.updateCopy.origin
  | .normalizeFields => .fresh
  | .insertCount => OutPath.distinctCount.origin
  | .colorize => .fresh
  | .quoteFields => .fresh

end Rbql
