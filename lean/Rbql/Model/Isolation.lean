/-
  Queries as small-step machines (one step per input record pulled, then the finishing step) and their
  interleaving.  Each query owns its state; whatever is global is only read — this typing IS the
  modelling claim of C16, supported by the generated footprint obligation and the scheduler tie.
  IMPORT-FREE, executable.
-/
import Rbql.Model.Engine
namespace Rbql

def iter {σ : Type} (f : σ → σ) : Nat → σ → σ
  | 0, s => s
  | n + 1, s => iter f n (f s)

/-- run two machines under a schedule: `true` = the first one takes a step, `false` = the second one -/
def interleave {σ₁ σ₂ : Type} (f₁ : σ₁ → σ₁) (f₂ : σ₂ → σ₂) : List Bool → σ₁ × σ₂ → σ₁ × σ₂
  | [], s => s
  | true :: rest, (s₁, s₂) => interleave f₁ f₂ rest (f₁ s₁, s₂)
  | false :: rest, (s₁, s₂) => interleave f₁ f₂ rest (s₁, f₂ s₂)

/-- state of one running query: input still to pull, records pulled so far, loop state, outcome once known -/
structure QState where
  rest : Table
  nr : Nat := 0
  st : LoopState
  out : Option (Except EngErr Sink) := none

/-- one scheduling step of a query: pull one record and process it, or (input exhausted / stop flag set) finish the writers -/
def qStep (q : SemQuery) (jm : JoinMap) (s : QState) : QState :=
  match s.out with
  | some _ => s
  | none =>
    if s.st.stop then { s with out := some (.ok (finishAll s.st).getSink) }
    else match s.rest with
      | [] => { s with out := some (.ok (finishAll s.st).getSink) }
      | r :: rest =>
        match stepRecord q jm s.st (s.nr + 1) r with
        | .error e => { s with out := some (.error e) }
        | .ok st' => { rest := rest, nr := s.nr + 1, st := st', out := none }

def qInit (q : SemQuery) (A : Table) (sink : Sink := {}) : QState := { rest := A, st := { chain := buildChain q sink } }

end Rbql
