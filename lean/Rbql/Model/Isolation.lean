/-
  Queries as small-step machines (one step per input record pulled, then the finishing step) and their
  interleaving.  Each query owns its state; whatever is global is only read — this typing IS the
  modelling claim of C16, supported by the generated footprint obligation and the scheduler tie.
  IMPORT-FREE, executable.
-/
import Rbql.Model.Engine
namespace Rbql

def iter {σ : Type} (f : σ → σ) : Nat → σ → σ
  | 0, s => s
  | n + 1, s => iter f n (f s)

/-- run two machines under a schedule: `true` = the first one takes a step, `false` = the second one -/
def interleave {σ₁ σ₂ : Type} (f₁ : σ₁ → σ₁) (f₂ : σ₂ → σ₂) : List Bool → σ₁ × σ₂ → σ₁ × σ₂
  | [], s => s
  | true :: rest, (s₁, s₂) => interleave f₁ f₂ rest (f₁ s₁, s₂)
  | false :: rest, (s₁, s₂) => interleave f₁ f₂ rest (s₁, f₂ s₂)

/-- state of one running query: input still to pull, records pulled so far, loop state, outcome once known -/
structure QState where
  rest : Table
  nr : Nat := 0
  st : LoopState
  out : Option (Except EngErr Sink) := none

/-- one scheduling step of a query: pull one record and process it, or (input exhausted / stop flag set) finish the writers -/
def qStep (q : SemQuery) (jm : JoinMap) (s : QState) : QState :=
  match s.out with
  | some _ => s
  | none =>
    if s.st.stop then { s with out := some (.ok (finishAll s.st).getSink) }
    else match s.rest with
      | [] => { s with out := some (.ok (finishAll s.st).getSink) }
      | r :: rest =>
        match stepRecord q jm s.st (s.nr + 1) r with
        | .error e => { s with out := some (.error e) }
        | .ok st' => { rest := rest, nr := s.nr + 1, st := st', out := none }

def qInit (q : SemQuery) (A : Table) (sink : Sink := {}) : QState := { rest := A, st := { chain := buildChain q sink } }

end Rbql

namespace Rbql

/-! ### machines that can see (and could write) shared module-level state

`γ` stands for everything that lives at module level in `rbql_engine.py` (`debug_mode`, `default_statement_groups`, any cache,
handler instance or published closure a change might introduce).  A step gets the shared state and its own state and returns both.
The engine's own steps never touch the shared part (`liftShared`); the FRAME condition `Frames` is what the source-derived obligation
`C16_no_shared_writes` supports for the real code. -/

/-- run two machines over one shared state under a schedule -/
def interleaveShared {γ σ₁ σ₂ : Type} (f₁ : γ × σ₁ → γ × σ₁) (f₂ : γ × σ₂ → γ × σ₂) : List Bool → γ × σ₁ × σ₂ → γ × σ₁ × σ₂
  | [], s => s
  | true :: rest, (g, s₁, s₂) => let r := f₁ (g, s₁); interleaveShared f₁ f₂ rest (r.1, r.2, s₂)
  | false :: rest, (g, s₁, s₂) => let r := f₂ (g, s₂); interleaveShared f₁ f₂ rest (r.1, s₁, r.2)

/-- the step leaves the shared state as it found it -/
def Frames {γ σ : Type} (f : γ × σ → γ × σ) : Prop := ∀ g s, (f (g, s)).1 = g

/-- a step that does not even look at the shared state -/
def liftShared {γ σ : Type} (f : σ → σ) : γ × σ → γ × σ := fun p => (p.1, f p.2)

/-- a query that memoises in shared state: the first value any query parses decides, for everybody, whether values are strings
(the shape of the seeded change "AVG / VARIANCE share one module-level NumHandler") -/
def sharedHandlerStep : Option Bool × (List Bool × List Bool) → Option Bool × (List Bool × List Bool)
  | (g, ([], out)) => (g, ([], out))
  | (none, (v :: rest, out)) => (some v, (rest, out ++ [v]))          -- first value ever seen: decide and remember
  | (some d, (_ :: rest, out)) => (some d, (rest, out ++ [d]))        -- later values: the remembered decision is used

end Rbql
