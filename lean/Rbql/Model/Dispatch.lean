/-
  `mad_max` / `mad_min` / `mad_sum`: the wrappers bound to lower-case `max` / `min` / `sum` inside
  queries, which decide between the RBQL aggregate and the Python builtin.  Decision logic only.
-/
namespace Rbql

/-- what the single positional argument is, as far as the wrapper can tell -/
inductive MadArg
  | str | int | float      -- isinstance(args[0], str / int / float)
  | other                  -- anything else (a list, a generator, an aggregation token, None, …)
  deriving DecidableEq, Repr

inductive MadOutcome
  | aggregate              -- MAX(args[0]) / MIN(args[0]) / SUM(args[0])
  | builtin                -- the Python builtin's result
  | reraise                -- the builtin's TypeError propagates
  deriving DecidableEq, Repr

/-- `mad_max(*args, **kwargs)` and `mad_min` (same code): `builtinTypeError` says whether the builtin
raises TypeError on these arguments (it does for a single non-iterable) -/
def madMaxMin (nargs : Nat) (hasKwargs : Bool) (arg0 : MadArg) (builtinTypeError : Bool) : MadOutcome :=
  let singleArg := nargs = 1 ∧ !hasKwargs
  if singleArg ∧ (arg0 = .str ∨ arg0 = .int ∨ arg0 = .float) then .aggregate
  else if !builtinTypeError then .builtin
  else if singleArg then .aggregate
  else .reraise

/-- `mad_sum(*args)`: try the builtin first -/
def madSum (nargs : Nat) (builtinTypeError : Bool) : MadOutcome :=
  if !builtinTypeError then .builtin
  else if nargs = 1 then .aggregate
  else .reraise

end Rbql
