/-
  Python CSV reader: operational model of `rbql_csv.CSVRecordIterator` over a stream whose
  `read(n)` hands out prescribed pieces, plus the line specification `linesSpec`.
  IMPORT-FREE, executable.
-/
import Rbql.Model.Csv
namespace Rbql

/-! ### Specification of physical lines -/

/-- Lines of a text: broken at LF, CR or CRLF; a final unterminated line is kept, a final empty
piece is not a line.  `cur` is the current line, reversed. -/
def linesAux : Str → Str → List Str
  | [], cur => if cur = [] then [] else [cur.reverse]
  | [c], cur => if c = LF ∨ c = CR then [cur.reverse] else [(c :: cur).reverse]
  | c :: c2 :: cs, cur =>
    if c = LF then cur.reverse :: linesAux (c2 :: cs) []
    else if c = CR then
      (if c2 = LF then cur.reverse :: linesAux cs [] else cur.reverse :: linesAux (c2 :: cs) [])
    else linesAux (c2 :: cs) (c :: cur)

def linesSpec (s : Str) : List Str := linesAux s []

/-! ### Stream with prescribed pieces -/

abbrev Stream := List Str

def totalLen (st : Stream) : Nat := (st.map List.length).sum

/-- `stream.read(n)`: at most `n` characters of the current piece; `[]` is end of input. -/
def Stream.read (n : Nat) : Stream → Str × Stream
  | [] => ([], [])
  | p :: ps => (p.take n, if p.drop n = [] then ps else p.drop n :: ps)

def hasNewline (s : Str) : Bool := s.any (fun c => c == LF || c == CR)

/-- `extract_line_from_data`: (before, separator, after) at the first LF | CR | CRLF. -/
def extractLine : Str → Option (Str × Str × Str)
  | [] => none
  | c :: cs =>
    if c = LF then some ([], [LF], cs)
    else if c = CR then
      match cs with
      | c2 :: cs2 => if c2 = LF then some ([], [CR, LF], cs2) else some ([], [CR], cs)
      | [] => some ([], [CR], [])
    else match extractLine cs with
      | some (b, sep, a) => some (c :: b, sep, a)
      | none => none

inductive Enc | none | utf8 | latin1
  deriving DecidableEq, Repr

structure RCfg where
  chunk : Nat
  delim : Str
  policy : Policy
  comment : Option Str      -- already normalised: `none` when the prefix is empty
  enc : Enc

structure RState where
  stream : Stream
  buffer : Str := []
  exhausted : Bool := false
  nl : Nat := 0
  nr : Nat := 0
  bom : Bool := false
  firstDefective : Option Nat := none
  fieldsInfo : List (Nat × Nat) := []     -- (num_fields, NR) in insertion order
  hasHeader : Bool := false
  firstRecord : Option (List Str) := none
  emitFirst : Bool := false

/-- `_get_row_from_buffer` -/
def rowFromBuffer (s : RState) : Option Str × RState :=
  match extractLine s.buffer with
  | none => (none, s)
  | some (before, sep, after) =>
    if sep = [CR] ∧ after = [] then
      let (one, st') := Stream.read 1 s.stream
      if one = [LF] then (some before, { s with buffer := [], stream := st' })
      else (some before, { s with buffer := one, stream := st' })
    else (some before, { s with buffer := after })

/-- the `while True` loop of `_read_until_found` -/
def readLoop (n : Nat) (st : Stream) (acc : Str) : Str × Stream × Bool :=
  match Stream.read n st with
  | ([], st') => (acc, st', true)
  | (t, st') =>
    if hasNewline t then (acc ++ t, st', false)
    else if _h : totalLen st' < totalLen st then readLoop n st' (acc ++ t)
    else (acc ++ t, st', false)
termination_by totalLen st

def readUntilFound (c : RCfg) (s : RState) : RState :=
  if s.exhausted then s
  else
    let (acc, st', ex) := readLoop c.chunk s.stream []
    { s with buffer := s.buffer ++ acc, stream := st', exhausted := ex }

/-- `remove_utf8_bom` -/
def removeBom (e : Enc) (row : Str) : Str :=
  match e, row with
  | .latin1, c1 :: c2 :: c3 :: rest =>
    if c1 = Char.ofNat 0xef ∧ c2 = Char.ofNat 0xbb ∧ c3 = Char.ofNat 0xbf then rest else row
  | .utf8, c1 :: rest => if c1 = Char.ofNat 0xfeff then rest else row
  | _, _ => row

/-- `get_row_simple` (the `UnicodeDecodeError` path is not part of this model). -/
def getRowSimple (c : RCfg) (s : RState) : Option Str × RState :=
  let fin (row : Str) (s : RState) : Option Str × RState :=
    let s := { s with nl := s.nl + 1 }
    if s.nl = 1 then
      let clean := removeBom c.enc row
      if clean ≠ row then (some clean, { s with bom := true }) else (some row, s)
    else (some row, s)
  match rowFromBuffer s with
  | (some row, s1) => fin row s1
  | (none, s1) =>
    let s2 := readUntilFound c s1
    match rowFromBuffer s2 with
    | (some row, s3) => fin row s3
    | (none, s3) =>
      if s3.buffer = [] then (none, s3)
      else fin s3.buffer { s3 with buffer := [] }

def countQuotes (s : Str) : Nat := s.count QUOTE

def joinLF : List Str → Str
  | [] => []
  | [r] => r
  | r :: rs => r ++ LF :: joinLF rs

/-- the `while True` loop of `get_row_rfc`; `rows` is `rows_buffer` reversed -/
def rfcLoop (c : RCfg) : Nat → RState → List Str → Str × RState
  | 0, s, rows => (joinLF rows.reverse, s)
  | fuel + 1, s, rows =>
    match getRowSimple c s with
    | (none, s1) => (joinLF rows.reverse, s1)
    | (some row, s1) =>
      if countQuotes row % 2 = 1 then (joinLF (row :: rows).reverse, s1)
      else rfcLoop c fuel s1 (row :: rows)

def remaining (s : RState) : Nat := s.buffer.length + totalLen s.stream

/-- `get_row_rfc` -/
def getRowRfc (c : RCfg) (s : RState) : Option Str × RState :=
  match getRowSimple c s with
  | (none, s1) => (none, s1)
  | (some first, s1) =>
    if (match c.comment with | some p => startsWith p first | none => false) then (some first, s1)
    else if countQuotes first % 2 = 0 then (some first, s1)
    else
      let (row, s2) := rfcLoop c (remaining s1 + 1) s1 [first]
      (some row, s2)

def getRow (c : RCfg) (s : RState) : Option Str × RState :=
  if c.policy = .quotedRfc then getRowRfc c s else getRowSimple c s

inductive ReadErr
  | rfcQuote (nr nl : Nat)      -- 'Inconsistent double quote escaping in … at record NR, line NL'
  deriving DecidableEq, Repr

def isComment (c : RCfg) (line : Str) : Bool :=
  match c.comment with | some p => startsWith p line | none => false

/-- the comment-skipping `while True` loop at the head of `get_record` -/
def nextDataLine (c : RCfg) : Nat → RState → Option Str × RState
  | 0, s => (none, s)
  | fuel + 1, s =>
    match getRow c s with
    | (none, s1) => (none, s1)
    | (some line, s1) => if isComment c line then nextDataLine c fuel s1 else (some line, s1)

def addFieldsInfo (info : List (Nat × Nat)) (nf nr : Nat) : List (Nat × Nat) :=
  if info.any (fun e => e.1 == nf) then info else info ++ [(nf, nr)]

/-- `get_record` after the `first_record_should_be_emitted` test -/
def readRecord (c : RCfg) (s : RState) : Except ReadErr (Option (List Str) × RState) :=
  match nextDataLine c (remaining s + 1) s with
  | (none, s1) => .ok (none, s1)
  | (some line, s1) =>
    let s2 := { s1 with nr := s1.nr + 1 }
    let (record, warning) := smartSplit c.delim c.policy false line
    let info := addFieldsInfo s2.fieldsInfo record.length s2.nr
    if warning ∧ s2.firstDefective = none then
      if c.policy = .quotedRfc then .error (.rfcQuote s2.nr s2.nl)
      else .ok (some record, { s2 with firstDefective := some s2.nl, fieldsInfo := info })
    else .ok (some record, { s2 with fieldsInfo := info })

/-- `get_record` -/
def getRecord (c : RCfg) (s : RState) : Except ReadErr (Option (List Str) × RState) :=
  if s.emitFirst then .ok (s.firstRecord, { s with emitFirst := false })
  else readRecord c s

/-- `CSVRecordIterator.__init__` (not `line_mode`) -/
def initReader (c : RCfg) (hasHeader : Bool) (st : Stream) : Except ReadErr RState := do
  let s0 : RState := { stream := st, hasHeader := hasHeader }
  let (fr, s1) ← getRecord c s0
  pure { s1 with firstRecord := fr, emitFirst := !hasHeader }

/-- `handle_query_modifier`: `some true` = header(s), `some false` = noheader(s) -/
def handleModifier (m : Option Bool) (s : RState) : RState :=
  match m with
  | some true => { s with hasHeader := true, emitFirst := false }
  | some false => { s with hasHeader := false, emitFirst := true }
  | none => s

def getHeader (s : RState) : Option (List Str) := if s.hasHeader then s.firstRecord else none

/-- `get_all_records()` -/
def allRecords (c : RCfg) : Nat → RState → List (List Str) → Except ReadErr (List (List Str) × RState)
  | 0, s, acc => .ok (acc.reverse, s)
  | fuel + 1, s, acc =>
    match getRecord c s with
    | .error e => .error e
    | .ok (none, s1) => .ok (acc.reverse, s1)
    | .ok (some r, s1) => allRecords c fuel s1 (r :: acc)

inductive ReadWarn
  | bom
  | defective (line : Nat)
  | fields (nf1 nr1 nf2 nr2 : Nat)
  deriving DecidableEq, Repr

/-- `get_warnings` -/
def readerWarnings (s : RState) : List ReadWarn :=
  (if s.bom then [.bom] else []) ++
  (match s.firstDefective with | some l => [.defective l] | none => []) ++
  (match s.fieldsInfo with
   | (nf1, nr1) :: (nf2, nr2) :: _ => [.fields nf1 nr1 nf2 nr2]
   | _ => [])

structure ReadResult where
  header : Option (List Str)
  records : List (List Str)
  warnings : List ReadWarn

/-- Whole run as the engine sees it: construct, apply the query modifier, read everything. -/
def readAll (c : RCfg) (hasHeader : Bool) (modifier : Option Bool) (st : Stream) :
    Except ReadErr ReadResult := do
  let s0 ← initReader c hasHeader st
  let s1 := handleModifier modifier s0
  let (recs, s2) ← allRecords c (remaining s1 + 2) s1 []
  pure { header := getHeader s1, records := recs, warnings := readerWarnings s2 }

/-- `io.TextIOWrapper` universal-newline translation (CRLF and CR become LF); this is what stands
between an encoded byte stream and the reader.  Modelled, not verified. -/
def univNewlines : Str → Str
  | [] => []
  | [c] => if c = CR then [LF] else [c]
  | c :: c2 :: cs =>
    if c = CR then (if c2 = LF then LF :: univNewlines cs else LF :: univNewlines (c2 :: cs))
    else c :: univNewlines (c2 :: cs)

/-- All physical rows through `get_row_simple` (the observable of the line-level theorem). -/
def allRowsSimple (c : RCfg) : Nat → RState → List Str
  | 0, _ => []
  | fuel + 1, s =>
    match getRowSimple c s with
    | (none, _) => []
    | (some row, s1) => row :: allRowsSimple c fuel s1

end Rbql
