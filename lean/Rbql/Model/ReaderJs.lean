/-
  JavaScript CSV reader: operational model of `rbql_csv.js` `CSVRecordIterator`
  (`process_data_stream_chunk`, `process_data_stream_end`, `process_data_bulk`, `process_line`,
  `MultilineRecordAggregator`).  The push-based producer is modelled as a fold over the decoded
  chunks; the consumer (`get_record` promises) only re-orders delivery, so the observable result
  (header, records, warnings, or the first stored error) is a function of the final state.
  IMPORT-FREE, executable.
-/
import Rbql.Model.ReaderPy
namespace Rbql

/-- JS `text.split(/\r\n|\r|\n/)`: always at least one piece; a final empty piece is kept. -/
def splitLinesJsAux : Str → Str → List Str
  | [], cur => [cur.reverse]
  | [c], cur => if c = LF ∨ c = CR then [cur.reverse, []] else [(c :: cur).reverse]
  | c :: c2 :: cs, cur =>
    if c = LF then cur.reverse :: splitLinesJsAux (c2 :: cs) []
    else if c = CR then
      (if c2 = LF then cur.reverse :: splitLinesJsAux cs [] else cur.reverse :: splitLinesJsAux (c2 :: cs) [])
    else splitLinesJsAux (c2 :: cs) (c :: cur)

def splitLinesJs (s : Str) : List Str := splitLinesJsAux s []

structure JState where
  nl : Nat := 0
  nr : Nat := 0
  bom : Bool := false
  firstDefective : Option Nat := none
  fieldsInfo : List (Nat × Nat) := []
  agg : List Str := []                 -- rfc_line_buffer, reversed
  out : List (List Str) := []          -- produced records, reversed
  err : Option ReadErr := none         -- first stored exception

/-- `process_record_line` -/
def jsRecordLine (c : RCfg) (st : JState) (line : Str) : JState :=
  let st := { st with nr := st.nr + 1 }
  let (record, warning) := smartSplit c.delim c.policy false line
  let st :=
    if warning ∧ st.firstDefective = none then
      let st := { st with firstDefective := some st.nl }
      if c.policy = .quotedRfc ∧ st.err = none then { st with err := some (.rfcQuote st.nr st.nl) } else st
    else st
  { st with fieldsInfo := addFieldsInfo st.fieldsInfo record.length st.nr, out := record :: st.out }

/-- `process_partial_rfc_record_line` with the `MultilineRecordAggregator` inlined -/
def jsRfcLine (c : RCfg) (st : JState) (line : Str) : JState :=
  if st.agg = [] ∧ isComment c line then st          -- has_comment_line, then reset
  else
    let unbalanced := countQuotes line % 2 = 1
    let buf := line :: st.agg
    let full := (!unbalanced && buf.length == 1) || (unbalanced && buf.length > 1)
    if full then jsRecordLine c { st with agg := [] } (joinLF buf.reverse)
    else { st with agg := buf }

/-- `process_line` -/
def jsProcessLine (c : RCfg) (st : JState) (line : Str) : JState :=
  let st := { st with nl := st.nl + 1 }
  let (line, st) :=
    if st.nl = 1 then
      let clean := removeBom c.enc line
      if clean ≠ line then (clean, { st with bom := true }) else (line, st)
    else (line, st)
  if c.policy = .quotedRfc then jsRfcLine c st line
  else if isComment c line then st
  else jsRecordLine c st line

/-- The line-level part of `process_data_stream_chunk` on an already decoded chunk: given
`partially_decoded_line` and `partially_decoded_line_ends_with_cr`, the complete lines handed to
`process_line` (in order), and the new values of the two variables. -/
def jsChunkLines (partialLine : Str) (endsCr : Bool) (decoded : Str) : List Str × Str × Bool :=
  let skipFirst := decoded.head? = some LF ∧ endsCr
  let lines := match splitLinesJs decoded with
    | [] => [partialLine]
    | l :: ls => (partialLine ++ l) :: ls
  let complete := lines.dropLast
  (if skipFirst then complete.drop 1 else complete, lines.getLast?.getD [], decoded.getLast? = some CR)

/-- all chunks of the stream: lines processed so far (in order), then the two variables -/
def jsStreamLinesAux : List Str → Str → Bool → List Str × Str × Bool
  | [], p, e => ([], p, e)
  | d :: ds, p, e =>
    let (ls, p', e') := jsChunkLines p e d
    let (ls2, p2, e2) := jsStreamLinesAux ds p' e'
    (ls ++ ls2, p2, e2)

/-- every physical line the stream reader passes to `process_line`, `process_data_stream_end` included -/
def jsStreamLines (pieces : List Str) : List Str :=
  let (ls, p, _) := jsStreamLinesAux pieces [] false
  if p ≠ [] then ls ++ [p] else ls

/-- the lines `process_data_bulk` passes to `process_line` -/
def jsBulkLines (text : Str) : List Str :=
  let lines := splitLinesJs text
  if lines.getLast? = some [] then lines.dropLast else lines

/-- end of input (both paths): flush an unfinished multi-line record -/
def jsFlush (c : RCfg) (st : JState) : JState :=
  if st.agg ≠ [] then jsRecordLine c st (joinLF st.agg.reverse) else st

/-- the stream path: `process_data_stream_chunk` for every chunk, then `process_data_stream_end` -/
def jsStream (c : RCfg) (pieces : List Str) : JState :=
  jsFlush c ((jsStreamLines pieces).foldl (jsProcessLine c) {})

/-- `process_data_bulk` on the decoded text -/
def jsBulk (c : RCfg) (text : Str) : JState :=
  jsFlush c ((jsBulkLines text).foldl (jsProcessLine c) {})

/-- JS `get_warnings` (order differs from Python; compared as a set) -/
def jsWarnings (st : JState) : List ReadWarn :=
  (match st.firstDefective with | some l => [.defective l] | none => []) ++
  (if st.bom then [.bom] else []) ++
  (match st.fieldsInfo with
   | (nf1, nr1) :: (nf2, nr2) :: _ => [.fields nf1 nr1 nf2 nr2]
   | _ => [])

/-- What `handle_query_modifier`, `get_header`, `get_all_records`, `get_warnings` deliver. -/
def jsResult (st : JState) (hasHeader : Bool) (modifier : Option Bool) : Except ReadErr ReadResult :=
  match st.err with
  | some e => .error e
  | none =>
    let hdr := match modifier with | some b => b | none => hasHeader
    let recs := st.out.reverse
    .ok { header := if hdr then recs.head? else none,
          records := if hdr then recs.drop 1 else recs,
          warnings := jsWarnings st }

end Rbql
