/-
  `python -m rbql` (rbql_main.csv_main / run_with_python_csv): exit status and stream discipline as
  decision logic over the outcome of `query_csv`.  IMPORT-FREE, executable.
-/
namespace Rbql

/-- `exception_to_error_info`: the bracketed type printed in the `Error [type]` line -/
inductive ErrClass
  | queryParsing | queryExecution | ioHandling | syntaxError | unexpected
  deriving DecidableEq, Repr

inductive StderrLine
  | error (t : ErrClass)       -- 'Error [<type>]: <message>'
  | warning                    -- 'Warning: <message>'
  deriving DecidableEq, Repr

structure CliOutcome where
  exit : Nat
  stderr : List StderrLine
  stdoutIsTableData : Bool     -- nothing but the output table is ever printed to stdout (errors and warnings go to stderr)
  deriving DecidableEq, Repr

/-- non-interactive `rbql --query …`: `outcome` is what `query_csv` did (its warnings, or the class of its exception) -/
def cliRun (outcome : Except ErrClass Nat) : CliOutcome :=
  match outcome with
  | .ok nWarnings => { exit := 0, stderr := List.replicate nWarnings .warning, stdoutIsTableData := true }
  | .error t => { exit := 1, stderr := [.error t], stdoutIsTableData := true }

end Rbql

namespace Rbql

/-! ### which CSV dialect the command line reads and writes (`run_with_python_csv`, `cli_rbql.js`) -/

inductive CliPolicy | simple | quoted | quotedRfc | whitespace | monocolumn
  deriving DecidableEq, Repr

/-- `normalize_delim` -/
def cliNormalizeDelim (d : List Char) : List Char :=
  if d = "TAB".toList then ['\t'] else if d = ['\\', 't'] then ['\t'] else d

/-- `get_default_policy` -/
def cliDefaultPolicy (d : List Char) : CliPolicy :=
  if d = [';'] ∨ d = [','] then .quoted else if d = [' '] then .whitespace else .simple

inductive OutFormat | input | csv | tsv | monocolumn
  deriving DecidableEq, Repr

/-- `interpret_named_csv_format` -/
def cliNamedFormat : OutFormat → Option (List Char × CliPolicy)
  | .input => none
  | .csv => some ([','], .quoted)
  | .tsv => some (['\t'], .simple)
  | .monocolumn => some ([], .monocolumn)

structure CliDialects where
  inDelim : List Char
  inPolicy : CliPolicy
  outDelim : List Char
  outPolicy : CliPolicy
  deriving DecidableEq, Repr

/-- the dialects `query_csv` is called with: `--delim`, optional `--policy`, `--out-format` -/
def cliDialects (delimArg : List Char) (policyArg : Option CliPolicy) (fmt : OutFormat) : CliDialects :=
  let d := cliNormalizeDelim delimArg
  let p := policyArg.getD (cliDefaultPolicy d)
  match cliNamedFormat fmt with
  | none => { inDelim := d, inPolicy := p, outDelim := d, outPolicy := p }
  | some (od, op) => { inDelim := d, inPolicy := p, outDelim := od, outPolicy := op }

end Rbql

namespace Rbql

/-! ### the front door of `python -m rbql` (csv_main): which invocations are refused before any query runs -/

structure CliArgs where
  version : Bool := false        -- `--version`
  color : Bool := false          -- `--color`
  hasOutput : Bool := false      -- `--output FILE` given
  policy : Option CliPolicy := none
  delim : Option (List Char) := none
  hasQuery : Bool := false       -- `--query` given (otherwise: interactive mode)
  deriving DecidableEq, Repr

inductive CliRefusal
  | colorWithOutput              -- '"--output" is not compatible with "--color" option'
  | policyWithoutDelim           -- 'Using "--policy" without "--delim" is not allowed'
  | colorInteractive             -- '"--color" option is not compatible with interactive mode…'
  | delimRequired                -- 'Separator must be provided with "--delim" option in non-interactive mode'
  deriving DecidableEq, Repr

inductive CliDoor
  | printVersion                                   -- prints the version, exit 0
  | refuse (why : CliRefusal)                      -- 'Error [generic]: …' on stderr, exit 1, nothing on stdout
  | interactive                                    -- preview + prompt (outside C13)
  | run (delim : List Char) (policy : CliPolicy)   -- run_with_python_csv with this input dialect
  deriving DecidableEq, Repr

/-- `csv_main` after argparse (POSIX: the `os.name == 'nt'` refusal of `--color` is not modelled) -/
def cliDoor (a : CliArgs) : CliDoor :=
  if a.version then .printVersion
  else if a.hasOutput && a.color then .refuse .colorWithOutput
  else
    let delim := if a.policy = some .monocolumn then some [] else a.delim
    if delim.isNone && a.policy.isSome then .refuse .policyWithoutDelim
    else if !a.hasQuery then (if a.color then .refuse .colorInteractive else .interactive)
    else
      match delim with
      | none => .refuse .delimRequired
      | some d => .run (cliNormalizeDelim d) (a.policy.getD (cliDefaultPolicy (cliNormalizeDelim d)))

end Rbql
