/-
  `python -m rbql` (rbql_main.csv_main / run_with_python_csv): exit status and stream discipline as
  decision logic over the outcome of `query_csv`.  IMPORT-FREE, executable.
-/
namespace Rbql

/-- `exception_to_error_info`: the bracketed type printed in the `Error [type]` line -/
inductive ErrClass
  | queryParsing | queryExecution | ioHandling | syntaxError | unexpected
  deriving DecidableEq, Repr

inductive StderrLine
  | error (t : ErrClass)       -- 'Error [<type>]: <message>'
  | warning                    -- 'Warning: <message>'
  deriving DecidableEq, Repr

structure CliOutcome where
  exit : Nat
  stderr : List StderrLine
  stdoutIsTableData : Bool     -- nothing but the output table is ever printed to stdout (errors and warnings go to stderr)
  deriving DecidableEq, Repr

/-- non-interactive `rbql --query …`: `outcome` is what `query_csv` did (its warnings, or the class of its exception) -/
def cliRun (outcome : Except ErrClass Nat) : CliOutcome :=
  match outcome with
  | .ok nWarnings => { exit := 0, stderr := List.replicate nWarnings .warning, stdoutIsTableData := true }
  | .error t => { exit := 1, stderr := [.error t], stdoutIsTableData := true }

end Rbql
