/-
  `rbql_csv.query_csv` as a resource machine: which files are open at each step of its
  try / finally, with an exception possible at every step.  IMPORT-FREE, executable.
-/
namespace Rbql

/-- the steps of the `try` block, in order -/
inductive CsvStep
  | openOutput        -- open(output_path, 'wb')            (stdout when no path: nothing to open)
  | openInput         -- open(input_path, 'rb')             (stdin when no path)
  | validateArgs      -- the four RbqlIOHandlingError checks, reading ~/.rbql_init_source.py
  | makeRegistry      -- FileSystemCSVRegistry(…)
  | makeIterator      -- CSVRecordIterator(input_stream, …)  (pre-reads the first record: may raise a decode error)
  | makeWriter        -- CSVWriter(output_stream, …)
  | openJoin          -- inside rbql_engine.query: registry.get_iterator_by_table_id opens the join file
  | makeJoinIterator  --   … and constructs its CSVRecordIterator (may raise)
  | runQuery          -- parsing, main loop, writer.finish (parsing / runtime / IO errors)
  deriving DecidableEq, Repr

def allSteps (hasJoin : Bool) : List CsvStep :=
  [.openOutput, .openInput, .validateArgs, .makeRegistry, .makeIterator, .makeWriter] ++
  (if hasJoin then [.openJoin, .makeJoinIterator] else []) ++ [.runQuery]

structure Fds where
  outOpen : Bool := false        -- a file this call opened for output is open
  inOpen : Bool := false         -- a file this call opened for input is open
  joinOpen : Bool := false       -- the join file is open
  closeOut : Bool := false       -- close_output_on_finish
  closeIn : Bool := false        -- close_input_on_finish
  registry : Bool := false       -- join_tables_registry is not None
  joinStream : Bool := false     -- registry.input_stream is not None
  stdClosed : Bool := false      -- stdin/stdout were closed by us (must stay false)
  deriving DecidableEq, Repr

/-- effect of a step that completes -/
def stepEffect (outFile inFile : Bool) (s : CsvStep) (f : Fds) : Fds :=
  match s with
  | .openOutput => if outFile then { f with outOpen := true, closeOut := true } else f
  | .openInput => if inFile then { f with inOpen := true, closeIn := true } else f
  | .makeRegistry => { f with registry := true }
  | .openJoin => { f with joinOpen := true, joinStream := true }
  | _ => f

/-- run the steps until one raises (`failAt = some i`: the i-th step raises before having any effect) -/
def runSteps (outFile inFile : Bool) : List CsvStep → Nat → Option Nat → Fds → Fds
  | [], _, _, f => f
  | s :: rest, i, failAt, f =>
    if failAt = some i then f else runSteps outFile inFile rest (i + 1) failAt (stepEffect outFile inFile s f)

/-- the `finally` block -/
def finallyBlock (f : Fds) : Fds :=
  let f := if f.closeIn then { f with inOpen := false } else f
  let f := if f.closeOut then { f with outOpen := false } else f
  if f.registry then (if f.joinStream then { f with joinOpen := false } else f) else f

/-- files left open by `query_csv` under a fault plan -/
def queryCsvFds (outFile inFile hasJoin : Bool) (failAt : Option Nat) : Fds :=
  finallyBlock (runSteps outFile inFile (allSteps hasJoin) 0 failAt {})

def Fds.allClosed (f : Fds) : Bool := !f.outOpen && !f.inOpen && !f.joinOpen && !f.stdClosed

end Rbql
