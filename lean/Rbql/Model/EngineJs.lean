/-
  The rbql-js engine (rbql-js/rbql.js) where it is built DIFFERENTLY from rbql_engine.py — the reference model of
  `Model/Engine.lean`.  Same main loop, same accumulators, same joiners; what differs is the plumbing:

  * DISTINCT / DISTINCT COUNT identify records by `JSON.stringify(record)` in a `Set` / `Map` (Python: the tuple itself);
  * ORDER BY stores `[key₁, …, keyₙ, NR, record]`, sorts with `stable_compare` over all components but the last
    (so NR takes part in the comparison) using the stable `Array.prototype.sort`, then reverses for DESC;
  * GROUP BY identifies groups by `JSON.stringify(key array)`, and orders them by `compare_key_arrays` of the decoded arrays;
  * a multi-column JOIN key is `JSON.stringify([k₁, …])` on both sides, a single-column key the raw value (`Map` key);
  * `TopWriter.write` does not look at what its sub-writer answers.

  `runJs` is the engine with these mechanisms; `Proofs/EngineJsRefines.lean` proves `runJs = run` (the reference) for a
  writer that does not refuse, whenever the host can order the sort / group keys.  IMPORT-FREE, executable; tied to the
  real rbql-js by the C19 correspondence (the driver answers with `runJs` for the JS leg).
-/
import Rbql.Model.Engine
namespace Rbql

/-! ### JSON.stringify on the value model -/

def hexDigitChar (n : Nat) : Char := if n < 10 then Char.ofNat (48 + n) else Char.ofNat (87 + n)

/-- one character inside a JSON string -/
def jsonEscapeChar (c : Char) : Str :=
  if c = '"' then ['\\', '"']
  else if c = '\\' then ['\\', '\\']
  else if c = '\n' then ['\\', 'n']
  else if c = '\r' then ['\\', 'r']
  else if c = '\t' then ['\\', 't']
  else if c.toNat = 8 then ['\\', 'b']
  else if c.toNat = 12 then ['\\', 'f']
  else if c.toNat < 32 then ['\\', 'u', '0', '0', hexDigitChar (c.toNat / 16), hexDigitChar (c.toNat % 16)]
  else [c]

def jsonString (s : Str) : Str := '"' :: (s.flatMap jsonEscapeChar) ++ ['"']

def natDigitsJs (n : Nat) : Str := (Nat.toDigits 10 n)

/-- the fractional digits of `r / d` in base 10 while they terminate within `fuel` places (`r < d`) -/
def fracDigits : Nat → Nat → Nat → Option Str
  | _, 0, _ => some []
  | 0, _, _ => none
  | fuel + 1, r, d => (fracDigits fuel ((r * 10) % d) d).map (fun ds => Char.ofNat (48 + (r * 10) / d) :: ds)

/-- `String(x)` of a JS number for the values the engine sees: integers as decimal digits, terminating decimals with their
exact expansion (the shortest round-trip form for the small dyadic decimals that are generated); anything else gets a form
`n/d` that no JS number prints as — only its being DIFFERENT for different numbers matters (Set / Map membership) -/
def jsNumRepr (q : Rat) : Str :=
  let sign : Str := if q.num < 0 then ['-'] else []
  let n := q.num.natAbs
  if q.den = 1 then sign ++ natDigitsJs n
  else
    match fracDigits 17 (n % q.den) q.den with
    | some ds => sign ++ natDigitsJs (n / q.den) ++ ['.'] ++ ds
    | none => sign ++ natDigitsJs n ++ ['/'] ++ natDigitsJs q.den

def jsonAtom : Atom → Str
  | .none => "null".toList
  | .bool true => "true".toList
  | .bool false => "false".toList
  | .num q => jsNumRepr q
  | .str s => jsonString s

def commaJoinStr : List Str → Str
  | [] => []
  | [x] => x
  | x :: xs => x ++ ',' :: commaJoinStr xs

def jsonVal : Val → Str
  | .at a => jsonAtom a
  | .list xs => '[' :: commaJoinStr (xs.map jsonAtom) ++ [']']

/-- `JSON.stringify(record)` / `JSON.stringify(key_array)` -/
def jsonRow (r : List Val) : Str := '[' :: commaJoinStr (r.map jsonVal) ++ [']']

/-! ### comparison (`a[i] !== b[i]`, `a[i] < b[i]`) -/

/-- UTF-16 code units of a string (JS strings compare by code unit) -/
def utf16Units (s : Str) : List Nat :=
  s.flatMap (fun c =>
    let n := c.toNat
    if n < 0x10000 then [n] else [0xD800 + (n - 0x10000) / 0x400, 0xDC00 + (n - 0x10000) % 0x400])

def unitsLt : List Nat → List Nat → Bool
  | [], [] => false
  | [], _ :: _ => true
  | _ :: _, [] => false
  | a :: as, b :: bs => if a < b then true else if b < a then false else unitsLt as bs

/-- `x !== y` on scalars -/
def jsAtomNe (x y : Atom) : Bool := x != y

/-- `x < y` for two scalars of the same kind; for operands of different kinds JavaScript coerces (null → 0, booleans → 0/1,
strings → numbers or NaN): modelled for null / boolean / number operands, `false` as soon as a string meets a non-string -/
def jsAtomLt : Atom → Atom → Bool
  | .str a, .str b => unitsLt (utf16Units a) (utf16Units b)
  | .str _, _ => false
  | _, .str _ => false
  | x, y =>
    let toNum : Atom → Rat := fun a => match a with | .num q => q | .bool true => 1 | _ => 0
    toNum x < toNum y

def jsValNe : Val → Val → Bool
  | .at a, .at b => jsAtomNe a b
  | _, _ => true                 -- two arrays are never `===`

def jsValLt : Val → Val → Bool
  | .at a, .at b => jsAtomLt a b
  | _, _ => false

/-- `stable_compare` restricted to the compared prefix (keys, then NR): negative = `true` means "a before b" is required,
the function returns the three-way result as `Ordering` -/
def jsStableCompare : List Val → List Val → Ordering
  | a :: as, b :: bs => if jsValNe a b then (if jsValLt a b then .lt else .gt) else jsStableCompare as bs
  | _, _ => .eq

/-- `compare_key_arrays` -/
def jsCompareKeyArrays : List Val → List Val → Ordering
  | a :: as, b :: bs => if jsValNe a b then (if jsValLt a b then .lt else .gt) else jsCompareKeyArrays as bs
  | [], [] => .eq
  | [], _ :: _ => .lt
  | _ :: _, [] => .gt

/-! ### writers -/

/-- `TopWriter` of rbql.js: the sub-writer's answer is not looked at -/
def TopLayer.writeJs (t : TopLayer) (r : Row) : TopLayer × Bool :=
  match t.top with
  | none => let (s, ok) := t.sink.write r; ({ t with sink := s }, ok)
  | some (cap, nw) =>
    if cap ≤ nw then (t, false)
    else
      let (s, _) := t.sink.write r
      ({ top := some (cap, nw + 1), sink := s }, true)

def TopLayer.feedJs : TopLayer → List Row → TopLayer
  | t, [] => t
  | t, r :: rs => let (t', ok) := t.writeJs r; if ok then t'.feedJs rs else t'

inductive JsDistState
  | none
  | uniq (seen : List Str)                          -- Set of JSON texts
  | uniqCount (recs : List (Str × Row × Nat))       -- Map JSON text ↦ [count, record], insertion order

structure JsDistLayer where
  dist : JsDistState := .none
  sub : TopLayer := {}

def jsBump : List (Str × Row × Nat) → Str → Row → List (Str × Row × Nat)
  | [], k, r => [(k, r, 1)]
  | (k', r', n) :: rest, k, r => if k' = k then (k', r', n + 1) :: rest else (k', r', n) :: jsBump rest k r

def JsDistLayer.write (d : JsDistLayer) (r : Row) : JsDistLayer × Bool :=
  match d.dist with
  | .none => let (t, ok) := d.sub.writeJs r; ({ d with sub := t }, ok)
  | .uniq seen =>
    let k := jsonRow r
    if k ∈ seen then (d, true)
    else let (t, ok) := d.sub.writeJs r; ({ dist := .uniq (k :: seen), sub := t }, ok)
  | .uniqCount recs => ({ d with dist := .uniqCount (jsBump recs (jsonRow r) r) }, true)

def JsDistLayer.feed : JsDistLayer → List Row → JsDistLayer
  | d, [] => d
  | d, r :: rs => let (d', ok) := d.write r; if ok then d'.feed rs else d'

def JsDistLayer.finish (d : JsDistLayer) : JsDistLayer :=
  match d.dist with
  | .uniqCount recs => { d with sub := (d.sub.feedJs (recs.map (fun e => Val.nat e.2.2 :: e.2.1))).finish }
  | _ => { d with sub := d.sub.finish }

/-- `SortedWriter` of rbql.js: entries `(keys ++ [NR], record)` in arrival order -/
structure JsChain where
  sorted : Option (Bool × List (List Val × Row)) := none
  sub : JsDistLayer := {}

/-- `writer.write(sort_key.concat([NR, out_fields]))` / `writer.write(out_fields)` -/
def JsChain.write (c : JsChain) (k : List Val) (nr : Nat) (r : Row) : JsChain × Bool :=
  match c.sorted with
  | some (rev, entries) => ({ c with sorted := some (rev, entries ++ [(k ++ [Val.nat nr], r)]) }, true)
  | none => let (d, ok) := c.sub.write r; ({ c with sub := d }, ok)

def JsChain.feed : JsChain → List Row → JsChain
  | c, [] => c
  | c, r :: rs => let (c', ok) := c.write [] 0 r; if ok then c'.feed rs else c'

/-- `unsorted_entries.sort(stable_compare)` (stable), then `reverse()` for DESC -/
def jsSortEntries (rev : Bool) (entries : List (List Val × Row)) : List Row :=
  let s := entries.mergeSort (fun x y => jsStableCompare x.1 y.1 != .gt)
  (if rev then s.reverse else s).map (·.2)

def JsChain.finish (c : JsChain) : JsChain :=
  match c.sorted with
  | some (rev, entries) => { c with sub := (c.sub.feed (jsSortEntries rev entries)).finish }
  | none => { c with sub := c.sub.finish }

def JsChain.getSink (c : JsChain) : Sink := c.sub.sub.sink

/-- `!(query_context.writer instanceof TopWriter)` in `select_aggregated` -/
def JsChain.forbidsAggregation (c : JsChain) : Bool :=
  c.sorted.isSome || (match c.sub.dist with | .none => false | _ => true)

/-! ### join keys -/

/-- the key under which rbql.js files a B record / looks up an A record: the raw value for one key column,
the JSON text of the array for several -/
def jsJoinKey (nkeys : Nat) (key : List Val) : List Val :=
  if nkeys = 1 then key else [Val.str (jsonRow key)]

/-- `HashJoinMap.build` of rbql.js -/
def JoinMap.buildJs (rhs : List (Option Nat)) : Table → Nat → JoinMap → Except EngErr JoinMap
  | [], _, jm => .ok jm
  | fields :: rest, nr, jm => do
    let nr := nr + 1
    let key ← rhsKey rhs nr fields
    JoinMap.buildJs rhs rest nr
      { entries := addJoinEntry jm.entries (jsJoinKey rhs.length key) (nr, fields.length, fields), maxLen := max jm.maxLen fields.length }

/-! ### main loop -/

structure JsAggState where
  cols : List AggCol                       -- accumulators keyed by `[JSON text of the key array]`
  keys : List (Str × List Val) := []       -- aggregation_keys (a Set of JSON texts), insertion order, with the decoded array

structure JsLoopState where
  chain : JsChain
  nu : Nat := 0
  stop : Bool := false
  agg : Option JsAggState := none

def emitRowsJs (st : JsLoopState) (key : List Val) (nr : Nat) (row : Row) (un : Option (Nat × List Atom)) : JsLoopState :=
  match un with
  | none =>
    let (c, ok) := st.chain.write key nr row
    { st with chain := c, stop := st.stop || !ok }
  | some (pos, l) =>
    let rec go (c : JsChain) : List Atom → JsChain × Bool
      | [] => (c, true)
      | v :: vs =>
        let (c', ok) := c.write key nr (row.set pos (.at v))
        if ok then go c' vs else (c', false)
    let (c, ok) := go st.chain l
    { st with chain := c, stop := st.stop || !ok }

/-- the group identity: `JSON.stringify(key)`, or `null` without GROUP BY (modelled as the text `null`) -/
def jsGroupKeyText (grouped : Bool) (key : List Val) : Str := if grouped then jsonRow key else "null".toList

def processSelectJs (q : SemQuery) (st : JsLoopState) (e : Env) : Except EngErr JsLoopState := do
  let pass ← liftErr e.nr (match q.where_ with | some w => w e | none => .ok true)
  if !pass then return st
  let (row, un) ← liftErr e.nr
    (match q.exceptCols with
     | some cols => .ok (selectExcept e.a cols, none)
     | none => evalItems q.items e)
  if q.isAgg then
    let key ← liftErr e.nr (match q.groupBy with | some g => g e | none => .ok [Val.none])
    let kt := jsGroupKeyText q.groupBy.isSome key
    match st.agg with
    | none =>
      if st.chain.forbidsAggregation then .error (.parsing .aggWithOrderDistinct)
      else
        let cols0 := (aggColKinds q.items e).map (fun k => ({ kind := k } : AggCol))
        let cols ← liftErr e.nr (incrementAll cols0 [Val.str kt] row)
        return { st with agg := some { cols := cols, keys := [(kt, key)] } }
    | some ag =>
      let cols ← liftErr e.nr (incrementAll ag.cols [Val.str kt] row)
      return { st with agg := some { cols := cols, keys := if ag.keys.any (fun p => p.1 == kt) then ag.keys else ag.keys ++ [(kt, key)] } }
  else
    let key ← liftErr e.nr (match q.orderBy with | some o => o e | none => .ok [])
    return emitRowsJs st key e.nr row un

def processMatchesJs (q : SemQuery) (nr : Nat) (recA : Row) : JsLoopState → List (Option Nat × Row) → Except EngErr JsLoopState
  | st, [] => .ok st
  | st, (bnr, recB) :: rest => do
    let st' ← processSelectJs q st { nr := nr, a := recA, bnr := bnr, b := some recB, nu := st.nu }
    if st'.stop then return st' else processMatchesJs q nr recA st' rest

def processUpdateJs (q : SemQuery) (jm : JoinMap) (st : JsLoopState) (nr : Nat) (recA : Row) : Except EngErr JsLoopState := do
  let (matched, bnr, recB) ← (match q.join with
    | none => pure (true, none, none)
    | some js => do
      let key ← liftErr nr (lhsKey js.lhs nr recA)
      let ms ← liftErr nr (getRhs js.kind jm (jsJoinKey js.lhs.length key))
      if ms.length > 1 then .error (.runtime nr none)
      else match ms with
        | [(b, r)] => pure (true, b, some r)
        | _ => pure (false, none, none) : Except EngErr (Bool × Option Nat × Option Row))
  let e : Env := { nr := nr, a := recA, bnr := bnr, b := recB, nu := st.nu }
  let pass ← if matched then liftErr nr (match q.where_ with | some w => w e | none => .ok true) else pure false
  let (up, nu) ← if pass then do
      let up ← liftErr nr (applyAssigns q.assigns { e with nu := st.nu + 1 } recA)
      pure (up, st.nu + 1)
    else pure (recA, st.nu)
  let (c, ok) := st.chain.write [] nr up
  return { st with chain := c, nu := nu, stop := st.stop || !ok }

def stepRecordJs (q : SemQuery) (jm : JoinMap) (st : JsLoopState) (nr : Nat) (recA : Row) : Except EngErr JsLoopState :=
  if q.isUpdate then processUpdateJs q jm st nr recA
  else match q.join with
    | none => processSelectJs q st { nr := nr, a := recA, nu := st.nu }
    | some js => do
      let key ← liftErr nr (lhsKey js.lhs nr recA)
      let ms ← liftErr nr (getRhs js.kind jm (jsJoinKey js.lhs.length key))
      processMatchesJs q nr recA st ms

def mainLoopJs (q : SemQuery) (jm : JoinMap) : Table → Nat → JsLoopState → Except (EngErr × JsLoopState × Nat) (JsLoopState × Nat)
  | [], nr, st => .ok (st, nr)
  | recA :: rest, nr, st =>
    if st.stop then .ok (st, nr)
    else
      match stepRecordJs q jm st (nr + 1) recA with
      | .error e => .error (e, st, nr + 1)
      | .ok st' => mainLoopJs q jm rest (nr + 1) st'

def buildChainJs (q : SemQuery) (sink : Sink) : JsChain :=
  if q.isUpdate then { sub := { sub := { sink := sink } } }
  else
    { sorted := match q.orderBy with | some _ => some (q.desc, []) | none => none,
      sub := { dist := match q.distinct with | .count => .uniqCount [] | .yes => .uniq [] | .no => .none,
               sub := { top := q.top.map (fun n => (n, 0)), sink := sink } } }

/-- `AggregateWriter.finish` of rbql.js: keys ordered by `compare_key_arrays` of the decoded arrays (a single `null` key is alone) -/
def finishAllJs (st : JsLoopState) : JsChain :=
  match st.agg with
  | none => st.chain.finish
  | some ag =>
    let keys := ag.keys.mergeSort (fun x y => jsCompareKeyArrays x.2 y.2 != .gt)
    let rows := keys.map (fun k => ag.cols.map (fun c => ((lookupAcc c.stats [Val.str k.1]).map Acc.final).getD Val.none))
    (st.chain.feed rows).finish

/-- `rbql.query` of rbql.js on array tables -/
def runJs (q : SemQuery) (A B : Table) (sink : Sink := {}) : RunResult :=
  let jmRes : Except EngErr JoinMap := match q.join with
    | some js => (JoinMap.buildJs js.rhs B 0 {}).map (JoinMap.widen js.nullWidth)
    | none => .ok {}
  if q.groupBy.isSome && (q.orderBy.isSome || q.isUpdate) then
    { sink := sink, error := some (.parsing .aggWithOrderDistinct), pulled := 0 }
  else
  match jmRes with
  | .error e => { sink := sink, error := some e, pulled := 0 }
  | .ok jm =>
    match mainLoopJs q jm A 0 { chain := buildChainJs q sink } with
    | .error (e, st, n) => { sink := st.chain.getSink, error := some e, pulled := n }
    | .ok (st, n) =>
      { sink := (finishAllJs st).getSink, error := none, pulled := n,
        warnA := fieldsWarning (A.take n), warnB := if q.join.isSome then fieldsWarning B else none }

end Rbql
