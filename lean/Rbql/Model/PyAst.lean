/-
  The Python route from a select list to its column infos (property C07): operational model of `column_info_from_node`,
  `search_for_as_alias_pseudo_function` and `ast_parse_select_expression_to_column_infos` of rbql_engine.py over an abstract
  syntax tree.  Python's own parser (`ast.parse`, standard library) is NOT modelled: the harness hands the tree it produces to
  the model (node kinds that matter — Name, Attribute, Subscript, Constant, Call — and, for every other node, just its children in
  `ast.iter_child_nodes` order, which is what `ast.walk` follows) and compares the model's answer with the real functions'.
  The rbql-js route (an ad-hoc span parser over the TEXT) is `Model/Translate.lean: adhocColumnInfos`.  IMPORT-FREE, executable.
-/
import Rbql.Model.Header
namespace Rbql

inductive PyConst
  | str (s : Str)
  | int (n : Int)
  | bool                      -- True / False: `isinstance(x, int)` holds, the code excludes them explicitly
  | other                     -- float, None, bytes, Ellipsis, complex
  deriving DecidableEq, Repr

inductive PyNode
  | name (id : Str)
  | attribute (value : PyNode) (attr : Str)
  | subscript (value slice : PyNode)
  | constant (c : PyConst)
  | call (func : PyNode) (args : List PyNode) (rest : List PyNode)      -- rest = the keyword nodes
  | other (children : List PyNode)
  deriving Repr

/-- `ast.iter_child_nodes` (expression contexts — Load / Store — are leaves without meaning here and are left out) -/
def PyNode.children : PyNode → List PyNode
  | .name _ => []
  | .attribute v _ => [v]
  | .subscript v s => [v, s]
  | .constant _ => []
  | .call f a r => f :: (a ++ r)
  | .other cs => cs

mutual
def PyNode.size : PyNode → Nat
  | .name _ => 1
  | .attribute v _ => 1 + v.size
  | .subscript v s => 1 + v.size + s.size
  | .constant _ => 1
  | .call f a r => 1 + f.size + PyNode.sizeList a + PyNode.sizeList r
  | .other cs => 1 + PyNode.sizeList cs
def PyNode.sizeList : List PyNode → Nat
  | [] => 0
  | n :: ns => n.size + PyNode.sizeList ns
end

/-- `ast.walk`: breadth first, children in field order; `fuel` bounds the number of nodes visited -/
def walkBfs : Nat → List PyNode → List PyNode
  | 0, _ => []
  | _, [] => []
  | fuel + 1, n :: queue => n :: walkBfs fuel (queue ++ n.children)

def PyNode.walk (root : PyNode) : List PyNode := walkBfs root.size [root]

def pyAliasFuncName : Str := "alias_column_as_pseudo_func".toList
def pyStarMarker : Str := "__RBQL_INTERNAL_STAR".toList

inductive AliasSearch
  | absent                    -- no call of the pseudo function anywhere in the tree
  | found (name : Str)
  | malformed                 -- 'Unable to parse "AS" column alias'
  deriving DecidableEq, Repr

/-- what one node contributes to the search: `none` = not a call of the pseudo function, keep walking -/
def aliasOfNode : PyNode → Option AliasSearch
  | .call (.name f) args _ =>
    if f = pyAliasFuncName then
      (match args with
       | [.name id] => if id.isEmpty then some .malformed else some (.found id)
       | _ => some .malformed)
    else none
  | _ => none

/-- `search_for_as_alias_pseudo_function`: the FIRST such call in `ast.walk` order decides -/
def searchAlias (root : PyNode) : AliasSearch :=
  match root.walk.findSome? aliasOfNode with
  | some r => r
  | none => .absent

def allDigits (s : Str) : Bool := !s.isEmpty && s.all (fun c => decide (48 ≤ c.toNat ∧ c.toNat ≤ 57))

def strToNat (s : Str) : Nat := s.foldl (fun a c => a * 10 + (c.toNat - 48)) 0

/-- a 1-based column number as the code stores it (`N - 1`); `a0` / `a[0]` / `a[-3]` give a negative index, which names no column -/
def fieldInfo (isB : Bool) (n : Int) : ColInfo := if 1 ≤ n then .field isB (n - 1).toNat else .other

inductive PyInfoErr
  | code118                   -- 'Unable to parse SELECT expression (error code #118)'
  | code119                   -- '… (error code #119)', e.g. `select a = 100`
  | badAlias                  -- 'Unable to parse "AS" column alias'
  deriving DecidableEq, Repr

/-- `column_info_from_node` (Python `None` = `.other`). Name, Attribute and Subscript roots are decided on the spot — the alias
search runs only for every other kind of root. -/
def pyColumnInfo (root : PyNode) : Except PyInfoErr ColInfo :=
  match root with
  | .name id =>
    if id = pyStarMarker then .ok (.star none)
    else
      match id with
      | c :: ds =>
        if (c = 'a' ∨ c = 'b') ∧ allDigits ds then .ok (fieldInfo (c = 'b') (strToNat ds : Int))
        else .ok (.named id)
      | [] => .ok (.named id)
  | .attribute v attr =>
    if attr.isEmpty then .ok .other
    else
      match v with
      | .name t =>
        if t = ['a'] ∨ t = ['b'] then
          (if attr = pyStarMarker then .ok (.star (some (t = ['b']))) else .ok (.named attr))
        else .ok .other
      | _ => .ok .other
  | .subscript v sl =>
    match v with
    | .name t =>
      if t = ['a'] ∨ t = ['b'] then
        (match sl with
         | .constant (.str s) => .ok (.named s)
         | .constant (.int n) => .ok (fieldInfo (t = ['b']) n)
         | _ => .ok .other)
      else .ok .other
    | _ => .ok .other
  | other =>
    match searchAlias other with
    | .found name => .ok (.alias name)
    | .malformed => .error .badAlias
    | .absent => .ok .other

/-- what `ast_parse_select_expression_to_column_infos` sees of the two parses it makes -/
structure PyTop where
  /-- for every statement of `ast.parse(select_expression)`: its child nodes -/
  stmts : List (List PyNode)
  /-- the single child of the single statement is a Tuple -/
  isTuple : Bool
  /-- the elements of the list display `ast.parse('[' + select_expression + ']')` (used for a Tuple root only) -/
  bracketElts : List PyNode

/-- `ast_parse_select_expression_to_column_infos` -/
def pyColumnInfos (t : PyTop) : Except PyInfoErr (List ColInfo) :=
  match t.stmts with
  | [children] =>
    (match children with
     | [root] => if t.isTuple then t.bracketElts.mapM pyColumnInfo else [root].mapM pyColumnInfo
     | _ => .error .code119)
  | _ => .error .code118

end Rbql
