/-
  The rbql-js twins of `separate_actions` and `parse_join_expression` (rbql.js), as variants of the Python model in
  `Parse.lean` — keyword location (`locate_statements`), WITH, TOP, DISTINCT, ASC/DESC are the same regular expressions in
  both ports and are shared.  The differences, each visible below:
   * `str_strip` removes SPACES only where Python's `str.strip()` removes all white space (the clause texts);
   * `UPDATE`: `/^ *SET/i` has no trailing space (Python: `'(?i)^ *SET '`);
   * SELECT and UPDATE in one query is an assertion failure, not a parsing error;
   * `&&` is accepted next to `and` in the ON clause.
  IMPORT-FREE, executable; tied to rbql.js by the correspondence (ops `actionsjs`, `joinexprjs`, `seplitjs`).
-/
import Rbql.Model.Parse
namespace Rbql

def buildActionJs (expr : Str) (start spanStart spanEnd : Nat) (st : Stmt) : Except ParseError Action :=
  let span := (expr.drop spanStart).take (spanEnd - spanStart)
  match st with
  | .strictLeftJoin | .leftOuterJoin | .leftJoin | .innerJoin | .join =>
    .ok { stmt := .join, text := stripSp span, joinSubtype := some st }
  | .update =>
    if start ≠ 0 then .error .updateNotFirst
    else
      let s1 := dropSpaces span
      let span' := if ciPrefix "SET".toList s1 then s1.drop 3 else span
      .ok { stmt := .update, text := stripSp span' }
  | .orderBy =>
    let span1 := (dropTrailingWord "ASC".toList span).getD span
    match dropTrailingWord "DESC".toList span1 with
    | some s => .ok { stmt := .orderBy, text := stripSp s, reverse := some true }
    | none => .ok { stmt := .orderBy, text := stripSp span1, reverse := some false }
  | .select =>
    if start ≠ 0 then .error .selectNotFirst
    else
      let (top, span1) := match matchTop span with | some (n, r) => (some n, r) | none => (none, span)
      let (dist, cnt, span2) := match matchDistinct span1 with | some (c, r) => (true, c, r) | none => (false, false, span1)
      .ok { stmt := .select, text := stripSp span2, top := top, distinct := dist, distinctCount := cnt }
  | s => .ok { stmt := s, text := stripSp span }

def buildActionsJs (expr : Str) : List (Nat × Nat × Stmt) → Except ParseError (List Action)
  | [] => .ok []
  | [(a, b, st)] => do let x ← buildActionJs expr a b expr.length st; pure [x]
  | (a, b, st) :: (a2, b2, st2) :: rest => do
    let x ← buildActionJs expr a b a2 st
    let xs ← buildActionsJs expr ((a2, b2, st2) :: rest)
    pure (x :: xs)

/-- outcome of rbql.js `separate_actions`: `assertion` = the `assert` on SELECT xor UPDATE fired -/
inductive JsParse
  | ok (a : Actions)
  | err (e : ParseError)
  | assertion

def separateActionsJs (expr0 : Str) : JsParse :=
  let expr := stripSp expr0
  let (expr, w) := match splitWith expr with | some (e, w) => (e, some w) | none => (expr, none)
  match locateStatements expr with
  | .error e => .err e
  | .ok located =>
    match buildActionsJs expr located with
    | .error e => .err e
    | .ok acts =>
      let hasSel := acts.any (·.stmt == .select)
      let hasUpd := acts.any (·.stmt == .update)
      if !hasSel && !hasUpd then .err .noSelectNoUpdate
      else if hasSel && hasUpd then .assertion
      else .ok { withModifier := w, actions := acts }

/-- ON-clause pairs with `and` or `&&` between them -/
def parseJoinPairsJs : Nat → Str → Except ParseError (List (Str × Str))
  | 0, _ => .error .invalidJoin
  | fuel + 1, s =>
    let (v1, r1) := takeVar s
    if v1 = [] then .error .invalidJoin else
    let r2 := dropSpaces r1
    match r2 with
    | '=' :: r3 =>
      let r4 := match r3 with | '=' :: r => r | _ => r3
      let r5 := dropSpaces r4
      let (v2, r6) := takeVar r5
      if v2 = [] then .error .invalidJoin
      else if r6 = [] then .ok [(v1, v2)]
      else
        let r7 := dropSpaces r6
        let afterAnd : Option Str :=
          if ciPrefix "and".toList r7 ∧ (r7.drop 3).head? = some ' ' then some (r7.drop 3)
          else if "&&".toList.isPrefixOf r7 ∧ (r7.drop 2).head? = some ' ' then some (r7.drop 2)
          else none
        match r6.head?, afterAnd with
        | some ' ', some rest => do
          let tl ← parseJoinPairsJs fuel (dropSpaces rest)
          pure ((v1, v2) :: tl)
        | _, _ => .error .invalidJoin
    | _ => .error .invalidJoin

def parseJoinExpressionJs (src : Str) : Except ParseError (Str × List (Str × Str)) :=
  let s := stripSp src
  let tid := s.takeWhile (· != ' ')
  let r1 := s.dropWhile (· != ' ')
  let r2 := dropSpaces r1
  if tid = [] ∨ r1.head? ≠ some ' ' ∨ !ciPrefix "on".toList r2 ∨ (r2.drop 2).head? ≠ some ' ' then .error .invalidJoin
  else do
    let pairs ← parseJoinPairsJs (s.length + 1) (dropSpaces (r2.drop 2))
    pure (tid, pairs)

/-! ### `separate_string_literals` of rbql.js

`/('((?<!\\)\\(\\\\)*'|[^'])*')|("…")|(`…`)/g` (after the repair fde8c3f: the look-behind).  The body is a greedy repetition of
"an ODD run of backslashes counted from its first backslash, followed by the quote" or "any character but the quote" (line breaks
included, unlike the Python pattern), then the closing quote; the regex engine backtracks: an escaped quote is skipped as a unit
when a closing quote can still be found after it, otherwise the scan falls back to consuming the backslash alone. -/

/-- after the opening quote `d`: the text after the closing quote.  `prevBs` = the previous character is a backslash -/
def jsLiteralBody (d : Char) : Nat → Bool → Str → Option Str
  | 0, _, _ => none
  | _ + 1, _, [] => none
  | fuel + 1, prevBs, c :: cs =>
    if c = d then some cs
    else
      let run := bsRun (c :: cs)
      if c = '\\' ∧ !prevBs ∧ run % 2 = 1 ∧ ((c :: cs).drop run).head? = some d then
        match jsLiteralBody d fuel false ((c :: cs).drop (run + 1)) with
        | some r => some r
        | none => jsLiteralBody d fuel true cs
      else jsLiteralBody d fuel (c = '\\') cs

/-- the three alternatives at the head of `s`: (literal text, rest) -/
def matchLiteralJs (s : Str) : Option (Str × Str) :=
  match s with
  | c :: cs =>
    if c = '\'' ∨ c = '"' ∨ c = '`' then
      (jsLiteralBody c (s.length + 1) false cs).map (fun rest => (s.take (s.length - rest.length), rest))
    else none
  | [] => none

def separateAuxJs : Nat → Str → Str → List Str → List Str → List Str × List Str
  | 0, _, cur, parts, lits => ((cur.reverse :: parts).reverse, lits.reverse)
  | _ + 1, [], cur, parts, lits => ((cur.reverse :: parts).reverse, lits.reverse)
  | fuel + 1, c :: cs, cur, parts, lits =>
    match matchLiteralJs (c :: cs) with
    | some (lit, rest) => separateAuxJs fuel rest [] (cur.reverse :: parts) (lit :: lits)
    | none => separateAuxJs fuel cs (c :: cur) parts lits

/-- `separate_string_literals` of rbql.js: (format expression with tabs turned into spaces, literals) -/
def separateLiteralsJs (s : Str) : Str × List Str :=
  let (parts, lits) := separateAuxJs (s.length + 1) s [] [] []
  ((interleaveParts parts 0).map (fun c => if c = '\t' then ' ' else c), lits)

end Rbql
