/-
  The query-translation layer: operational model of the text-to-code rewrites between the shallow parser and the
  generated main loop — `replace_star_count`, the ` AS name` rewrite, `replace_star_vars`,
  `replace_star_vars_for_ast` / `replace_star_vars_for_header_parsing`, `translate_select_expression` (rbql_engine.py and
  rbql.js), `translate_update_expression`, `parse_basic_variables`, `parse_array_variables`, and the rbql-js header
  parser (`parse_root_bracket_level_text_spans`, `column_info_from_text_span`, `unquote_string`,
  `adhoc_parse_select_expression_to_column_infos`).

  Every regular expression is replaced by a deterministic scanner that mirrors `re.finditer` / `RegExp.exec` with the `g`
  flag (left-most, non-overlapping, look-behind and look-ahead as in the pattern); the equality with the real regex
  engines is established by the correspondence (exhaustive short strings over an alphabet containing every character the
  patterns mention), not proved.  All scanners are structurally recursive: a match of length n found at the head sets a
  skip counter to n-1.  IMPORT-FREE, executable.
-/
import Rbql.Model.Header
import Rbql.Model.Parse
namespace Rbql

/-! ### character classes -/

def isAlpha (c : Char) : Bool := decide (('a' ≤ c ∧ c ≤ 'z') ∨ ('A' ≤ c ∧ c ≤ 'Z'))
/-- `[_a-zA-Z0-9]` -/
def isWordChar (c : Char) : Bool := c == '_' || isAlpha c || isDigit c
/-- `[_a-zA-Z]` -/
def isIdStart (c : Char) : Bool := c == '_' || isAlpha c

/-- the `$` of a look-ahead `(?=$|,)`: end of the text; in Python (no MULTILINE) also just before a final line feed -/
def atEnd (py : Bool) (s : Str) : Bool := s.isEmpty || (py && s == [LF])

def endOrComma (py : Bool) (s : Str) : Bool := atEnd py s || s.head? == some ','

/-- `s[i:j]` -/
def slice (s : Str) (i j : Nat) : Str := (s.drop i).take (j - i)

/-! ### `COUNT(*)` → `COUNT(1)` -/

/-- ` *COUNT\( *\* *\)` (case-insensitive) at the head: the length of the match -/
def countStarItem (s : Str) : Option Nat :=
  let s1 := dropSpaces s
  if ciPrefix "COUNT(".toList s1 then
    match dropSpaces (s1.drop 6) with
    | '*' :: r2 =>
      match dropSpaces r2 with
      | ')' :: r3 => some (s.length - r3.length)
      | _ => none
    | _ => none
  else none

/-- `re.sub(r'(?:(?<=^)|(?<=,)) *COUNT\( *\* *\)', ' COUNT(1)', text, flags=re.IGNORECASE)`;
`skip` = characters of a match still to be dropped, `boundary` = the previous character is a comma or there is none -/
def replaceStarCountRaw : Nat → Bool → Str → Str
  | _, _, [] => []
  | skip + 1, _, c :: cs => replaceStarCountRaw skip (c == ',') cs
  | 0, boundary, c :: cs =>
    match (if boundary then countStarItem (c :: cs) else none) with
    | some n => " COUNT(1)".toList ++ replaceStarCountRaw (n - 1) (c == ',') cs
    | none => c :: replaceStarCountRaw 0 (c == ',') cs

/-- `replace_star_count` of rbql_engine.py (`.lstrip(' ')`) -/
def replaceStarCountPy (s : Str) : Str := (replaceStarCountRaw 0 true s).dropWhile (· == ' ')
/-- `replace_star_count` of rbql.js (`str_strip`) -/
def replaceStarCountJs (s : Str) : Str := jsStrStrip (replaceStarCountRaw 0 true s)

/-! ### ` AS name` -/

def isAliasChar (c : Char) : Bool := isAlpha c || isDigit c || c == '_'

/-- `[a-zA-Z][a-zA-Z0-9_]*` at the head (greedy): the identifier and the rest -/
def takeAliasIdent : Str → Option (Str × Str)
  | c :: cs => if isAlpha c then some (c :: cs.takeWhile isAliasChar, cs.dropWhile isAliasChar) else none
  | [] => none

/-- ` +(AS|as) +([a-zA-Z][a-zA-Z0-9_]*) *(?=$|,)` at the head: the alias and the length of the match -/
def asAliasAt (py : Bool) (s : Str) : Option (Str × Nat) :=
  match s with
  | ' ' :: _ =>
    match dropSpaces s with
    | k1 :: k2 :: ' ' :: r =>
      if (k1 == 'A' && k2 == 'S') || (k1 == 'a' && k2 == 's') then
        match takeAliasIdent (dropSpaces r) with
        | some (ident, r2) =>
          let r3 := dropSpaces r2
          if endOrComma py r3 then some (ident, s.length - r3.length) else none
        | none => none
      else none
    | _ => none
  | _ => none

/-- `re.sub(regexp_for_as_column_alias, repl, text)` -/
def subAsAlias (py : Bool) (repl : Str → Str) : Nat → Str → Str
  | _, [] => []
  | skip + 1, _ :: cs => subAsAlias py repl skip cs
  | 0, c :: cs =>
    match asAliasAt py (c :: cs) with
    | some (ident, n) => repl ident ++ subAsAlias py repl (n - 1) cs
    | none => c :: subAsAlias py repl 0 cs

def aliasPseudoCall (ident : Str) : Str := " == alias_column_as_pseudo_func(".toList ++ ident ++ [')']

/-! ### star items -/

inductive StarKind | all | a | b
  deriving DecidableEq, Repr

/-- `(\*|a\.\*|b\.\*)` at the head -/
def starToken : Str → Option (StarKind × Str)
  | '*' :: r => some (.all, r)
  | 'a' :: '.' :: '*' :: r => some (.a, r)
  | 'b' :: '.' :: '*' :: r => some (.b, r)
  | _ => none

/-- ` *(\*|a\.\*|b\.\*) *(?=$|,)` at the head: kind and length -/
def starItem (py : Bool) (s : Str) : Option (StarKind × Nat) :=
  match starToken (dropSpaces s) with
  | some (k, r) =>
    let r2 := dropSpaces r
    if endOrComma py r2 then some (k, s.length - r2.length) else none
  | none => none

/-- `(?:^|,) *(\*|a\.\*|b\.\*) *(?=$|,)` at offset `pos` (`atStart` = offset 0): the `^` alternative first, then the comma -/
def starMatchConsuming (py : Bool) (atStart : Bool) (s : Str) : Option (StarKind × Nat) :=
  match (if atStart then starItem py s else none) with
  | some m => some m
  | none =>
    match s with
    | ',' :: t => (starItem py t).map (fun m => (m.1, m.2 + 1))
    | _ => none

/-- `re.finditer` of the star pattern: (start, end, kind) of every match.  `consuming` = the pattern of `replace_star_vars`
(the comma is part of the match); otherwise the look-behind pattern of `replace_star_vars_for_ast` / `…_for_header_parsing` -/
def starMatches (py consuming : Bool) : Nat → Nat → Bool → Str → List (Nat × Nat × StarKind)
  | _, _, _, [] => []
  | skip + 1, pos, _, c :: cs => starMatches py consuming skip (pos + 1) (c == ',') cs
  | 0, pos, prevComma, c :: cs =>
    let m := if consuming then starMatchConsuming py (pos == 0) (c :: cs)
             else (if pos == 0 || prevComma then starItem py (c :: cs) else none)
    match m with
    | some (k, n) => (pos, pos + n, k) :: starMatches py consuming (n - 1) (pos + 1) (c == ',') cs
    | none => starMatches py consuming 0 (pos + 1) (c == ',') cs

/-- the `for match in star_matches` loop: `extra` = 1 in `replace_star_vars` ("adding one to skip the lookahead comma") -/
def assembleStars (s : Str) (repl : StarKind → Str) (extra : Nat) : List (Nat × Nat × StarKind) → Nat → Str → Str
  | [], last, acc => acc ++ s.drop last
  | (st, en, k) :: rest, last, acc =>
    let acc := if last < st then acc ++ slice s last st else acc
    assembleStars s repl extra rest (en + extra) (acc ++ repl k)

def starVarName : StarKind → Str
  | .all => "star_fields".toList | .a => "record_a".toList | .b => "record_b".toList

def starReplPy (k : StarKind) : Str := "] + ".toList ++ starVarName k ++ " + [".toList
def starReplJs (k : StarKind) : Str := "]).concat(".toList ++ starVarName k ++ ").concat([".toList

def starMarker : StarKind → Str
  | .all => "__RBQL_INTERNAL_STAR".toList | .a => "a.__RBQL_INTERNAL_STAR".toList | .b => "b.__RBQL_INTERNAL_STAR".toList

/-- `replace_star_vars` (rbql_engine.py: `js = false`; rbql.js: `js = true`) -/
def replaceStarVars (js : Bool) (s : Str) : Str :=
  assembleStars s (if js then starReplJs else starReplPy) 1 (starMatches (!js) true 0 0 false s) 0 []

/-- `replace_star_vars_for_ast` (Python) / `replace_star_vars_for_header_parsing` (JS) -/
def replaceStarVarsMarker (js : Bool) (s : Str) : Str :=
  assembleStars s starMarker 0 (starMatches (!js) false 0 0 false s) 0 []

/-! ### `translate_select_expression` -/

inductive TranslateErr
  | emptySelect                       -- '"SELECT" expression is empty'
  | updNotAssignment                  -- 'the expression must start with assignment …'
  | updUnknownField (name : Str)      -- 'Unknown field name: …'
  deriving DecidableEq, Repr

/-- rbql_engine.py: (the list expression handed to the main-loop template, the text handed to `ast.parse`) -/
def translateSelectPy (s : Str) : Except TranslateErr (Str × Str) :=
  let e0 := replaceStarCountPy s
  let translated := pyStripU (replaceStarVars false (pyStripU (subAsAlias true (fun _ => []) 0 e0)))
  let forAst := pyStripU (replaceStarVarsMarker false (pyStripU (subAsAlias true aliasPseudoCall 0 e0)))
  if translated.isEmpty then .error .emptySelect
  else .ok (['['] ++ translated ++ [']'], forAst)

/-- rbql.js: (the array expression, the text handed to the span parser) -/
def translateSelectJs (s : Str) : Except TranslateErr (Str × Str) :=
  let e0 := replaceStarCountJs s
  let translated := jsStrStrip (replaceStarVars true (subAsAlias false (fun _ => []) 0 e0))
  let forHeader := jsStrStrip (replaceStarVarsMarker true e0)
  if translated.isEmpty then .error .emptySelect
  else .ok ("[].concat([".toList ++ translated ++ "])".toList, forHeader)

/-! ### `translate_update_expression` -/

/-- `[.#a-zA-Z0-9\[\]_]` -/
def isAssignVarChar (c : Char) : Bool := c == '.' || c == '#' || isAlpha c || isDigit c || c == '[' || c == ']' || c == '_'

/-- ` *(a[.#a-zA-Z0-9\[\]_]*) *=(?=[^=])` at the head: the variable text and the length of the match -/
def assignItem (s : Str) : Option (Str × Nat) :=
  match dropSpaces s with
  | 'a' :: r =>
    let v := 'a' :: r.takeWhile isAssignVarChar
    match dropSpaces (r.dropWhile isAssignVarChar) with
    | '=' :: c :: r3 => if c != '=' then some (v, s.length - (c :: r3).length) else none
    | _ => none
  | _ => none

/-- `(?:^|,) *(a[…]*) *=(?=[^=])` at offset `pos`: variable, length -/
def assignMatchAt (atStart : Bool) (s : Str) : Option (Str × Nat) :=
  match (if atStart then assignItem s else none) with
  | some m => some m
  | none =>
    match s with
    | ',' :: t => (assignItem t).map (fun m => (m.1, m.2 + 1))
    | _ => none

/-- all matches of the assignment pattern, left to right: (start, end, variable text) -/
def assignMatches : Nat → Nat → Str → List (Nat × Nat × Str)
  | _, _, [] => []
  | skip + 1, pos, _ :: cs => assignMatches skip (pos + 1) cs
  | 0, pos, c :: cs =>
    match assignMatchAt (pos == 0) (c :: cs) with
    | some (v, n) => (pos, pos + n, v) :: assignMatches (n - 1) (pos + 1) cs
    | none => assignMatches 0 (pos + 1) cs

/-- the `while True` loop of `translate_update_expression`, before the variables are looked up: the destination
variable texts paired with the right-hand-side texts.  `strip` = `str.strip` (Python, `pyStripU`) or `str_strip` (JS).
The first match must start at offset 0. -/
def updatePairs (strip : Str → Str) (s : Str) : Except TranslateErr (List (Str × Str)) :=
  match assignMatches 0 0 s with
  | [] => .error .updNotAssignment
  | (st0, en0, v0) :: rest =>
    if st0 != 0 then .error .updNotAssignment
    else
      let rec go (v : Str) (from_ : Nat) : List (Nat × Nat × Str) → List (Str × Str)
        | [] => [(v, strip (s.drop from_))]
        | (st, en, v') :: more => (v, strip (slice s from_ st)) :: go v' en more
      .ok (go v0 en0 rest)

/-- `translate_update_expression`: the assignments as (field index, right-hand-side text), given the variable map
(`lookup` = `input_variables_map.get`, applied to the variable text with its literals restored) -/
def translateUpdate (strip : Str → Str) (lookup : Str → Option Nat) (lits : List Str) (s : Str) :
    Except TranslateErr (List (Nat × Str)) := do
  let pairs ← updatePairs strip s
  pairs.mapM (fun p =>
    let name := combineLiterals (strip p.1) lits
    match lookup name with
    | some i => .ok (i, p.2)
    | none => .error (.updUnknownField name))

/-! ### `parse_basic_variables` / `parse_array_variables` -/

def digitsToNat (ds : Str) : Nat := ds.foldl (fun n c => n * 10 + (c.toNat - '0'.toNat)) 0

/-- `([1-9][0-9]*)` at the head (greedy): digits and rest -/
def takeFieldNum : Str → Option (Str × Str)
  | c :: cs => if isDigit c && c != '0' then some (c :: cs.takeWhile isDigit, cs.dropWhile isDigit) else none
  | [] => none

/-- `prefix([1-9][0-9]*)(?:$|(?=[^_a-zA-Z0-9]))` at the head, with the regex engine's backtracking: when the greedy digit
run is followed by a word character, shorter runs are followed by a digit, so the match fails -/
def basicVarItem (py : Bool) (pfx : Char) (s : Str) : Option (Nat × Nat) :=
  match s with
  | p :: r =>
    if p == pfx then
      match takeFieldNum r with
      | some (ds, r2) =>
        if atEnd py r2 || (match r2 with | c :: _ => !isWordChar c | [] => false) then some (digitsToNat ds, 1 + ds.length) else none
      | none => none
    else none
  | [] => none

/-- `(?:^|[^_a-zA-Z0-9])prefix…` at offset `pos`: field number and match length -/
def basicVarMatchAt (py : Bool) (pfx : Char) (atStart : Bool) (s : Str) : Option (Nat × Nat) :=
  match (if atStart then basicVarItem py pfx s else none) with
  | some m => some m
  | none =>
    match s with
    | c :: t => if !isWordChar c then (basicVarItem py pfx t).map (fun m => (m.1, m.2 + 1)) else none
    | [] => none

/-- field numbers of all matches, in order of occurrence -/
def basicVarNums (py : Bool) (pfx : Char) : Nat → Nat → Str → List Nat
  | _, _, [] => []
  | skip + 1, pos, _ :: cs => basicVarNums py pfx skip (pos + 1) cs
  | 0, pos, c :: cs =>
    match basicVarMatchAt py pfx (pos == 0) (c :: cs) with
    | some (n, len) => n :: basicVarNums py pfx (len - 1) (pos + 1) cs
    | none => basicVarNums py pfx 0 (pos + 1) cs

/-- `prefix\[([1-9][0-9]*)\]` at the head -/
def arrayVarItem (pfx : Char) (s : Str) : Option (Nat × Nat) :=
  match s with
  | p :: '[' :: r =>
    if p == pfx then
      match takeFieldNum r with
      | some (ds, ']' :: _) => some (digitsToNat ds, 3 + ds.length)
      | _ => none
    else none
  | _ => none

def arrayVarMatchAt (pfx : Char) (atStart : Bool) (s : Str) : Option (Nat × Nat) :=
  match (if atStart then arrayVarItem pfx s else none) with
  | some m => some m
  | none =>
    match s with
    | c :: t => if !isWordChar c then (arrayVarItem pfx t).map (fun m => (m.1, m.2 + 1)) else none
    | [] => none

def arrayVarNums (pfx : Char) : Nat → Nat → Str → List Nat
  | _, _, [] => []
  | skip + 1, pos, _ :: cs => arrayVarNums pfx skip (pos + 1) cs
  | 0, pos, c :: cs =>
    match arrayVarMatchAt pfx (pos == 0) (c :: cs) with
    | some (n, len) => n :: arrayVarNums pfx (len - 1) (pos + 1) cs
    | none => arrayVarNums pfx 0 (pos + 1) cs

/-! ### the rbql-js header parser -/

inductive SpanErr
  | noOpening (c : Char)      -- 'No matching opening bracket for closing "c"'
  | noClosing (c : Char)      -- 'No matching closing bracket for opening "c"'
  deriving DecidableEq, Repr

def bracketsMatch (o c : Char) : Bool := (o == '[' && c == ']') || (o == '(' && c == ')') || (o == '{' && c == '}')

/-- the character loop of `parse_root_bracket_level_text_spans`; `stack` has the innermost bracket first,
`cur` is the current span reversed, `done` the finished spans reversed -/
def rootSpansAux : Str → List Char → Str → List Str → Except SpanErr (List Str)
  | [], [], cur, done => .ok ((cur.reverse :: done).reverse)
  | [], o :: st, _, _ => .error (.noClosing ((o :: st).getLast?.getD o))
  | c :: cs, st, cur, done =>
    if c == ',' && st.isEmpty then rootSpansAux cs st [] (cur.reverse :: done)
    else if c == '[' || c == '{' || c == '(' then rootSpansAux cs (c :: st) (c :: cur) done
    else if c == ']' || c == '}' || c == ')' then
      match st with
      | o :: st' => if bracketsMatch o c then rootSpansAux cs st' (c :: cur) done else .error (.noOpening c)
      | [] => .error (.noOpening c)
    else rootSpansAux cs st (c :: cur) done

/-- the empty span after a trailing comma is not an element of the array literal the select list becomes (repair 9447a17):
dropped when it is not the only span -/
def dropTrailingEmptySpan (l : List Str) : List Str :=
  if 1 < l.length ∧ l.getLast? = some [] then l.dropLast else l

/-- `parse_root_bracket_level_text_spans` -/
def rootSpans (s : Str) : Except SpanErr (List Str) := (rootSpansAux s [] [] []).map (fun l => dropTrailingEmptySpan (l.map jsTrim))

/-- the single left-to-right pass `replace(/\\([\\'"nrt])/g, …)` of `unquote_string`: the escapes that
`js_string_escape_column_name` writes are undone, every other backslash stays -/
def unescapeJs : Str → Str
  | '\\' :: c :: rest =>
    if c == '\\' || c == '\'' || c == '"' then c :: unescapeJs rest
    else if c == 'n' then LF :: unescapeJs rest
    else if c == 'r' then CR :: unescapeJs rest
    else if c == 't' then '\t' :: unescapeJs rest
    else '\\' :: unescapeJs (c :: rest)
  | c :: rest => c :: unescapeJs rest
  | [] => []

/-- `unquote_string` (after the repair 0237ae6: one pass, control-character escapes included) -/
def unquoteString (q : Str) : Option Str :=
  if q.length < 2 then none
  else
    let body := (q.drop 1).take (q.length - 2)
    if (q.head? == some '\'' && q.getLast? == some '\'') || (q.head? == some '"' && q.getLast? == some '"') then
      some (unescapeJs body)
    else none

def isJsLineTerminator (c : Char) : Bool := c == LF || c == CR || c.toNat == 0x2028 || c.toNat == 0x2029

/-- `^(.*) (as|AS) +([a-zA-Z][a-zA-Z0-9_]*) *$` on the whole span: the alias.  Read from the right: trailing spaces, the
identifier (a maximal run of alias characters that starts with a letter), at least one space, `as`/`AS`, one space, and a
prefix without line terminators. -/
def asAliasWhole (s : Str) : Option Str :=
  let r := s.reverse.dropWhile (· == ' ')
  let identRev := r.takeWhile isAliasChar
  let r1 := r.dropWhile isAliasChar
  match identRev.reverse with
  | [] => none
  | c :: cs =>
    -- the identifier must start with a letter; the regex may also choose a shorter identifier only by starting later,
    -- which would need a space inside the run: impossible, so the maximal run is the only candidate
    if !isAlpha c then none
    else
      match r1 with
      | ' ' :: _ =>
        match r1.dropWhile (· == ' ') with
        | k2 :: k1 :: ' ' :: pre =>
          if ((k1 == 'a' && k2 == 's') || (k1 == 'A' && k2 == 'S')) && !pre.any isJsLineTerminator then some (c :: cs) else none
        | _ => none
      | _ => none

/-- the column info of one text span, in the vocabulary of `Header.lean` (`none` of the JS code = `.other`);
a field number 0 (`a0`, `a[0]`: not an RBQL variable) is reported as `.other` -/
def colInfoOfSpan (span : Str) (lits : List Str) : ColInfo :=
  let t := jsTrim span
  match asAliasWhole t with
  | some al => .alias al
  | none =>
    let fieldOf (isB : Bool) (ds : Str) : ColInfo := if digitsToNat ds = 0 then .other else .field isB (digitsToNat ds - 1)
    match t with
    | [] => .other
    | c :: cs =>
      if isIdStart c && cs.all isWordChar then
        -- simple_var_match
        if t == "__RBQL_INTERNAL_STAR".toList then .star none
        else if "___RBQL_STRING_LITERAL".toList.isPrefixOf t then .other
        else if (c == 'a' || c == 'b') && !cs.isEmpty && cs.all isDigit then fieldOf (c == 'b') cs
        else .named t
      else if (c == 'a' || c == 'b') then
        match cs with
        | '.' :: n :: ns =>
          if isIdStart n && ns.all isWordChar then
            if n :: ns == "__RBQL_INTERNAL_STAR".toList then .star (some (c == 'b')) else .named (n :: ns)
          else .other
        | '[' :: rest =>
          match rest.reverse with
          | ']' :: innerRev =>
            let inner := innerRev.reverse
            if !inner.isEmpty && inner.all isDigit then fieldOf (c == 'b') inner
            else if "___RBQL_STRING_LITERAL".toList.isPrefixOf inner then
              let tail := inner.drop 22
              let ds := tail.takeWhile isDigit
              if !ds.isEmpty && tail.dropWhile isDigit == "___".toList then
                match lits[digitsToNat ds]? with
                | some q => (match unquoteString q with | some n => .named n | none => .other)
                | none => .other
              else .other
            else .other
          | _ => .other
        | _ => .other
      else .other

/-- `adhoc_parse_select_expression_to_column_infos` -/
def adhocColumnInfos (selectForHeader : Str) (lits : List Str) : Except SpanErr (List ColInfo) :=
  (rootSpans selectForHeader).map (·.map (fun sp => colInfoOfSpan sp lits))

end Rbql
