/-
  Output header synthesis: operational model of `select_output_header` (rbql_engine.py / rbql.js)
  over the per-item column infos (`QueryColumnInfo`), plus the EXCEPT, DISTINCT COUNT and UPDATE
  headers of `shallow_parse_input_query`.  How a select item's TEXT is classified into a column info is
  Python's `ast` / the JS span parser: tied by the correspondence, not modelled.  IMPORT-FREE, executable.
-/
import Rbql.Model.Engine
namespace Rbql

/-- `QueryColumnInfo` by kind (`None` entries of the Python list are `.other`) -/
inductive ColInfo
  | star (table : Option Bool)        -- `*` (none), `a.*` (some false), `b.*` (some true)
  | field (isB : Bool) (idx : Nat)    -- aN / a[N] / bN / b[N]   (0-based)
  | named (name : Str)                -- a.name, a["name"], a bare identifier such as NR
  | alias (name : Str)                -- expr AS name
  | other                             -- anything else
  deriving DecidableEq, Repr

inductive HeaderErr
  | starAndAliasWithoutHeader         -- 'Using both * (star) and AS alias in the same query is not allowed for input tables without header'
  deriving DecidableEq, Repr

def colName (k : Nat) : Str := "col".toList ++ (toString k).toList

/-- the `for qci in query_column_infos` loop; `acc` is `output_header` so far -/
def headerLoop (inputHeader joinHeader : List Str) : List ColInfo → List Str → List Str
  | [], acc => acc
  | ci :: rest, acc =>
    let acc' := match ci with
      | .other => acc ++ [colName (acc.length + 1)]
      | .star none => acc ++ inputHeader ++ joinHeader
      | .star (some false) => acc ++ inputHeader
      | .star (some true) => acc ++ joinHeader
      | .named n => acc ++ [n]
      | .alias n => acc ++ [n]
      | .field false i => acc ++ [if i < inputHeader.length then inputHeader.getD i [] else colName (acc.length + 1)]
      | .field true i => acc ++ [if i < joinHeader.length then joinHeader.getD i [] else colName (acc.length + 1)]
    headerLoop inputHeader joinHeader rest acc'

def ColInfo.isStar : ColInfo → Bool
  | .star _ => true
  | _ => false

def ColInfo.isAlias : ColInfo → Bool
  | .alias _ => true
  | _ => false

/-- `select_output_header(input_header, join_header, query_column_infos)` -/
def selectOutputHeader (inputHeader joinHeader : Option (List Str)) (infos : List ColInfo) :
    Except HeaderErr (Option (List Str)) :=
  let hasStar := infos.any ColInfo.isStar
  let hasAlias := infos.any ColInfo.isAlias
  match inputHeader with
  | none =>
    if hasStar && hasAlias then .error .starAndAliasWithoutHeader
    else if !hasAlias then .ok none
    else .ok (some (headerLoop [] [] infos []))
  | some ih => .ok (some (headerLoop ih (joinHeader.getD []) infos []))

/-- the header a SELECT query hands to `writer.set_header` (after the DISTINCT COUNT fix: the count column
is a generic column in front) -/
def queryHeader (distinctCount : Bool) (inputHeader joinHeader : Option (List Str)) (infos : List ColInfo)
    (exceptCols : Option (List Nat)) : Except HeaderErr (Option (List Str)) :=
  match exceptCols with
  | some cols =>
    .ok (inputHeader.map (fun h =>
      (if distinctCount then [colName 1] else []) ++ (h.zipIdx.filter (fun p => !cols.contains p.2)).map (·.1)))
  | none => selectOutputHeader inputHeader joinHeader (if distinctCount then .other :: infos else infos)

/-- an UPDATE query hands the input header to the writer unchanged (`writer.set_header(input_header)`), join or not -/
def updateHeader (inputHeader : Option (List Str)) : Option (List Str) := inputHeader

/-- number of output fields one item contributes for a record with `na` a-fields and `nb` b-fields -/
def ColInfo.width (na nb : Nat) : ColInfo → Nat
  | .star none => na + nb
  | .star (some false) => na
  | .star (some true) => nb
  | _ => 1

end Rbql
