/-
  `like(text, pattern)`: operational model of `like_to_regex` + anchored regex matching
  (rbql_engine.py / rbql.js) and the SQL LIKE specification.  IMPORT-FREE, executable.
-/
import Rbql.Model.Basic
namespace Rbql

/-- the regex produced by `like_to_regex`, as tokens: an escaped literal run, `.`, `.*` -/
inductive LTok
  | lit (s : Str)
  | any
  | star
  deriving DecidableEq, Repr

/-- the `while i < len(pattern)` loop of `like_to_regex`; `cur` is `pattern[p:i]` reversed -/
def likeToks : Str → Str → List LTok
  | [], cur => [.lit cur.reverse]
  | c :: cs, cur =>
    if c = '_' then .lit cur.reverse :: .any :: likeToks cs []
    else if c = '%' then .lit cur.reverse :: .star :: likeToks cs []
    else likeToks cs (c :: cur)

/-- characters `.` matches: everything but a line terminator (Python: LF; JS: LF CR U+2028 U+2029) -/
def dotMatches (js : Bool) (c : Char) : Bool :=
  if js then c != LF && c != CR && c != Char.ofNat 0x2028 && c != Char.ofNat 0x2029 else c != LF

/-- `.*` followed by the continuation `k` (greedy with backtracking = any split point) -/
def starLoop (js : Bool) (k : Str → Bool) : Str → Bool
  | [] => k []
  | c :: t => k (c :: t) || (dotMatches js c && starLoop js k t)

/-- anchored match of the token list; `$` is "end of text", or (Python only) before one final LF -/
def rmatch (js : Bool) : List LTok → Str → Bool
  | [], t => t.isEmpty || (!js && t == [LF])
  | .lit s :: r, t => s.isPrefixOf t && rmatch js r (t.drop s.length)
  | .any :: r, t => (match t with | c :: t' => dotMatches js c && rmatch js r t' | [] => false)
  | .star :: r, t => starLoop js (rmatch js r) t

/-- `LIKE(text, pattern)` as the engines compute it -/
def likeImpl (js : Bool) (text pattern : Str) : Bool := rmatch js (likeToks pattern []) text

/-- SQL LIKE: `%` any (possibly empty) sequence, `_` exactly one character, anything else itself -/
def likeSpec : Str → Str → Bool
  | [], t => t.isEmpty
  | c :: p, t =>
    if c = '%' then
      likeSpec p t || (match t with | _ :: t' => likeSpec (c :: p) t' | [] => false)
    else if c = '_' then
      (match t with | _ :: t' => likeSpec p t' | [] => false)
    else
      (match t with | c' :: t' => c == c' && likeSpec p t' | [] => false)
termination_by p t => (p.length, t.length)

end Rbql
