import Rbql.Model.Basic
import Rbql.Model.Csv
import Rbql.Model.ReaderPy
import Rbql.Model.ReaderJs
import Rbql.Model.Writer
import Rbql.Proofs.Find
import Rbql.Proofs.Split
import Rbql.Theorems.C11
