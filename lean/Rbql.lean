import Rbql.Model.Basic
import Rbql.Model.Csv
import Rbql.Model.ReaderPy
