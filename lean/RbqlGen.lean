-- Source-derived part of the build: depends on lean/Rbql/Generated/*, regenerated from /repo on every check run.
import Rbql
import Rbql.Generated.SharedState
import Rbql.Theorems.C16
