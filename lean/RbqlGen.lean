-- Source-derived part of the build: depends on lean/Rbql/Generated/*, regenerated from /repo on every check run.
-- Each theorem file below is also built and audited on its own (`lake build +Rbql.Theorems.X`), so that a broken
-- source-derived obligation concerns its own property only.
import Rbql
import Rbql.Generated.SharedState
import Rbql.Theorems.C16Gen
import Rbql.Generated.RowFlow
import Rbql.Theorems.C06Gen
