/-
  `query <json>` op of the model driver: abstract query + tables as JSON, result as JSON.
  Glue, not trusted.
-/
import Lean.Data.Json
import Rbql.Model.Engine
import Rbql.Spec.EngineSpec
import Rbql.Spec.Comparable
import Rbql.Model.EngineJs
import Rbql.Model.Header
import Rbql.Model.PyAst
import Driver.Codec
namespace Driver
open Rbql Lean

def jErr {α} (msg : String) : Except String α := .error msg

def decAtom (j : Json) : Except String Atom :=
  match j with
  | .null => .ok .none
  | .str s => .ok (.str s.toList)
  | .bool b => .ok (.bool b)
  | .num n => .ok (.num ((n.mantissa : Rat) / ((10 ^ n.exponent : Nat) : Rat)))
  | .obj _ => do
    let nd ← j.getObjVal? "n"
    let arr ← nd.getArr?
    let a ← (arr.getD 0 .null).getInt?
    let b ← (arr.getD 1 .null).getNat?
    .ok (.num ((a : Rat) / (b : Rat)))
  | _ => jErr "atom"

def decVal (j : Json) : Except String Val :=
  match j with
  | .arr xs => do let l ← xs.toList.mapM decAtom; .ok (.list l)
  | _ => do let a ← decAtom j; .ok (.at a)

def decRow (j : Json) : Except String Row := do
  let arr ← j.getArr?
  arr.toList.mapM decVal

def decTableJ (j : Json) : Except String Table := do
  let arr ← j.getArr?
  arr.toList.mapM decRow

partial def decExpr (j : Json) : Except String Expr := do
  let arr ← j.getArr?
  let tag ← (arr.getD 0 .null).getStr?
  let arg (i : Nat) : Except String Expr := decExpr (arr.getD i .null)
  match tag with
  | "a" => do let i ← (arr.getD 1 .null).getNat?; .ok (.a i)
  | "b" => do let i ← (arr.getD 1 .null).getNat?; .ok (.b i)
  | "nr" => .ok .nr | "nf" => .ok .nf | "bnr" => .ok .bnr | "nu" => .ok .nu
  | "lit" => do let v ← decAtom (arr.getD 1 .null); .ok (.lit v)
  | "concat" => do .ok (.concat (← arg 1) (← arg 2))
  | "add" => do .ok (.add (← arg 1) (← arg 2))
  | "mul" => do .ok (.mul (← arg 1) (← arg 2))
  | "mod" => do .ok (.mod (← arg 1) (← arg 2))
  | "len" => do .ok (.len (← arg 1))
  | "eq" => do .ok (.eq (← arg 1) (← arg 2))
  | "ne" => do .ok (.ne (← arg 1) (← arg 2))
  | "lt" => do .ok (.lt (← arg 1) (← arg 2))
  | "le" => do .ok (.le (← arg 1) (← arg 2))
  | "and" => do .ok (.and (← arg 1) (← arg 2))
  | "or" => do .ok (.or (← arg 1) (← arg 2))
  | "not" => do .ok (.not (← arg 1))
  | "like" => do let p ← (arr.getD 2 .null).getStr?; .ok (.like (← arg 1) p.toList)
  | "split" => do let p ← (arr.getD 2 .null).getStr?; .ok (.split (← arg 1) p.toList)
  | "splitne" => do let p ← (arr.getD 2 .null).getStr?; .ok (.splitNE (← arg 1) p.toList)
  | t => jErr s!"expr tag {t}"

def decAggKind (s : String) : Except String AggKind :=
  match s with
  | "any_value" => .ok .anyValue | "min" => .ok .min | "max" => .ok .max | "sum" => .ok .sum
  | "avg" => .ok .avg | "variance" => .ok .variance | "median" => .ok .median | "count" => .ok .count
  | "array_agg" => .ok .arrayAgg | t => jErr s!"agg {t}"

def decItem (j : Json) : Except String SItem :=
  match j with
  | .str "star" => .ok .star
  | .str "starA" => .ok .starA
  | .str "starB" => .ok .starB
  | _ =>
    match j.getObjVal? "unnest" with
    | .ok u => do let e ← decExpr u; .ok (.unnest e.evalList)
    | .error _ =>
      match j.getObjVal? "agg" with
      | .ok a => do
        let k ← decAggKind (← a.getStr?)
        let e ← decExpr (← j.getObjVal? "e")
        .ok (.agg k e.eval)
      | .error _ => do let e ← decExpr (← j.getObjVal? "e"); .ok (.expr e.eval)

def optField (j : Json) (k : String) : Option Json :=
  match j.getObjVal? k with
  | .ok .null => none
  | .ok v => some v
  | .error _ => none

def decKeyIdx (j : Json) : Except String (Option Nat) :=
  match j with
  | .null => .ok none
  | _ => do let n ← j.getNat?; .ok (some n)

def evalKeys (es : List Expr) : Ex (List Val) := fun env => es.mapM (fun e => e.eval env)

def decQuery (j : Json) : Except String (SemQuery × Option Nat) := do
  let isUpdate := (optField j "update").map (fun v => v == Json.bool true) |>.getD false
  let items ← match optField j "items" with
    | some v => do let arr ← v.getArr?; arr.toList.mapM decItem
    | none => pure []
  let exceptCols ← match optField j "except" with
    | some v => do let arr ← v.getArr?; let l ← arr.toList.mapM (·.getNat?); pure (some l)
    | none => pure none
  let where_ ← match optField j "where" with
    | some v => do let e ← decExpr v; pure (some e.evalBool)
    | none => pure none
  let join ← match optField j "join" with
    | some v => do
      let kind ← (← v.getObjVal? "kind").getStr?
      let k : JoinKind := match kind with | "left" => .left | "strict" => .strictLeft | _ => .inner
      let lhs ← (← (← v.getObjVal? "lhs").getArr?).toList.mapM decKeyIdx
      let rhs ← (← (← v.getObjVal? "rhs").getArr?).toList.mapM decKeyIdx
      pure (some ({ kind := k, lhs := lhs, rhs := rhs } : JoinSpec))
    | none => pure none
  let orderBy ← match optField j "order" with
    | some v => do let es ← (← v.getArr?).toList.mapM decExpr; pure (some (evalKeys es))
    | none => pure none
  let groupBy ← match optField j "group" with
    | some v => do let es ← (← v.getArr?).toList.mapM decExpr; pure (some (evalKeys es))
    | none => pure none
  let desc := (optField j "desc").map (fun v => v == Json.bool true) |>.getD false
  let distinct : Distinct := match (optField j "distinct").bind (fun v => v.getStr?.toOption) with
    | some "yes" => .yes | some "count" => .count | _ => .no
  let top ← match optField j "top" with
    | some v => do let n ← v.getNat?; pure (some n)
    | none => pure none
  let assigns ← match optField j "assigns" with
    | some v => do
      (← v.getArr?).toList.mapM (fun p => do
        let pa ← p.getArr?
        let i ← (pa.getD 0 .null).getNat?
        let e ← decExpr (pa.getD 1 .null)
        pure (i, e.eval))
    | none => pure []
  let refuse ← match optField j "refuse" with
    | some v => do let n ← v.getNat?; pure (some n)
    | none => pure none
  pure ({ isUpdate := isUpdate, items := items, exceptCols := exceptCols, where_ := where_, join := join,
          orderBy := orderBy, desc := desc, groupBy := groupBy, distinct := distinct, top := top, assigns := assigns }, refuse)

def encRat (q : Rat) : Json := Json.mkObj [("n", Json.arr #[Json.num (JsonNumber.fromInt q.num), Json.num (JsonNumber.fromNat q.den)])]

def encAtom : Atom → Json
  | .none => .null
  | .str s => .str (String.ofList s)
  | .num q => encRat q
  | .bool b => .bool b

def encVal : Val → Json
  | .at a => encAtom a
  | .list xs => .arr (xs.map encAtom).toArray

def encErr : Option EngErr → Json
  | none => .null
  | some (.runtime nr f) => .arr #[.str "runtime", Json.num (JsonNumber.fromNat nr), match f with | some k => Json.num (JsonNumber.fromNat k) | none => .null]
  | some (.joinB nr idx) => .arr #[.str "joinB", Json.num (JsonNumber.fromNat nr), Json.num (JsonNumber.fromNat idx)]
  | some (.parsing .unnestTwice) => .arr #[.str "parsing", .str "unnest-twice"]
  | some (.parsing .aggWithOrderDistinct) => .arr #[.str "parsing", .str "agg-order-distinct"]

def encWarn4 : Option (Nat × Nat × Nat × Nat) → Json
  | none => .null
  | some (a, b, c, d) => .arr #[Json.num (JsonNumber.fromNat a), Json.num (JsonNumber.fromNat b), Json.num (JsonNumber.fromNat c), Json.num (JsonNumber.fromNat d)]

def opQuery (payload : String) : String :=
  match Json.parse payload with
  | .error e => "bad-json " ++ e
  | .ok j =>
    match (do
      let (q, refuse) ← decQuery (← j.getObjVal? "q")
      let A ← decTableJ (← j.getObjVal? "A")
      let B ← match optField j "B" with | some b => decTableJ b | none => pure []
      -- the join table's header (when it has one) sets the minimal width of the LEFT JOIN null record
      let hb : Nat := match optField j "header_b" with
        | some h => (match h.getArr? with | .ok a => a.size | .error _ => 0)
        | none => 0
      let q := { q with join := q.join.map (fun js => { js with nullWidth := hb }) }
      pure (q, refuse, A, B) : Except String _) with
    | .error e => "bad-case " ++ e
    | .ok (q, refuse, A, B) =>
      match runChecked q A B { refuseFrom := refuse } with
      | .hostTypeError pulled =>
        -- the host language cannot order two of the keys to be sorted: Python raises TypeError out of `finish`
        (Json.mkObj [("specOk", .null), ("rows", .arr #[]), ("err", .arr #[.str "exception", .str "TypeError"]),
                     ("pulled", Json.num (JsonNumber.fromNat pulled))]).compress
      | .result r =>
      -- cross-check of the specification layer (what the theorems state) on this very case
      let specOk : Json :=
        if refuse.isSome then .null
        else if q.isAgg then
          (if q.isUpdate || q.orderBy.isSome || q.distinct != .no then .null
           else if let some e := (q.join.bind (fun js => joinBError js.rhs B)) then .bool (r.error == some e)
           else match aggEmissions q B A 0 with
            -- an evaluation fails somewhere: the engine reports that error OR an accumulation error met earlier (non-constant
            -- column, non-numeric aggregate argument): `C14_aggregate_first_error` states which; here only "some error"
            | .error _ => .bool r.error.isSome
            | .ok krs =>
              if krs.all (fun kr => kr.2.1.length == (match krs with | (_, _, e0) :: _ => (aggColKinds q.items e0).length | [] => 0)) then
                (match aggRowsSpec q krs with
                 | .ok rows => .bool (r.error.isNone && r.rows == rows)
                 | .error _ => .bool r.error.isSome)
              else .null)
        else if q.isUpdate then
          (if let some e := (q.join.bind (fun js => joinBError js.rhs B)) then .bool (r.error == some e)
           else match updateSpec q B A 0 0 with
            | .ok rows => .bool (r.error.isNone && r.rows == rows)
            | .error e => .bool (r.error == some e))
        else if let some e := (q.join.bind (fun js => joinBError js.rhs B)) then .bool (r.error == some e)
        else match emissions q B A 0 with
          | .ok es => .bool (r.error.isNone && r.rows == selectSpec q es)
          | .error e => if q.top.isSome then .null else .bool (r.error == some e)
      (Json.mkObj [
        ("specOk", specOk),
        ("rows", .arr (r.rows.map (fun row => Json.arr (row.map encVal).toArray)).toArray),
        ("err", encErr r.error),
        ("pulled", Json.num (JsonNumber.fromNat r.pulled)),
        ("writes", Json.num (JsonNumber.fromNat r.sink.writes)),
        ("afterRefusal", Json.num (JsonNumber.fromNat r.sink.afterRefusal)),
        ("finished", Json.num (JsonNumber.fromNat r.sink.finished)),
        ("warnA", encWarn4 r.warnA), ("warnB", encWarn4 r.warnB)]).compress

/-- the rbql-js leg: the same case through the model of the rbql.js engine (`Model/EngineJs.lean`).  `refinesOk` is the
cross-check, on this very case, of the refinement theorem `runJs = run` (null when its hypotheses do not apply) -/
def opQueryJs (payload : String) : String :=
  match Json.parse payload with
  | .error e => "bad-json " ++ e
  | .ok j =>
    match (do
      let (q, refuse) ← decQuery (← j.getObjVal? "q")
      let A ← decTableJ (← j.getObjVal? "A")
      let B ← match optField j "B" with | some b => decTableJ b | none => pure []
      let hb : Nat := match optField j "header_b" with
        | some h => (match h.getArr? with | .ok a => a.size | .error _ => 0)
        | none => 0
      let q := { q with join := q.join.map (fun js => { js with nullWidth := hb }) }
      pure (q, refuse, A, B) : Except String _) with
    | .error e => "bad-case " ++ e
    | .ok (q, refuse, A, B) =>
      let r := runJs q A B { refuseFrom := refuse }
      let refinesOk : Json :=
        if refuse.isSome then .null
        else match runChecked q A B {} with
          | .hostTypeError _ => .null
          | .result r0 => .bool (r0.rows == r.rows && r0.error == r.error && r0.pulled == r.pulled)
      (Json.mkObj [
        ("specOk", .null), ("refinesOk", refinesOk),
        ("rows", .arr (r.rows.map (fun row => Json.arr (row.map encVal).toArray)).toArray),
        ("err", encErr r.error),
        ("pulled", Json.num (JsonNumber.fromNat r.pulled)),
        ("writes", Json.num (JsonNumber.fromNat r.sink.writes)),
        ("afterRefusal", Json.num (JsonNumber.fromNat r.sink.afterRefusal)),
        ("finished", Json.num (JsonNumber.fromNat r.sink.finished)),
        ("warnA", encWarn4 r.warnA), ("warnB", encWarn4 r.warnB)]).compress

def decColInfo (j : Json) : Except String ColInfo := do
  let arr ← j.getArr?
  let tag ← (arr.getD 0 .null).getStr?
  match tag with
  | "star" => .ok (.star none)
  | "starA" => .ok (.star (some false))
  | "starB" => .ok (.star (some true))
  | "field" => do
    let b ← (arr.getD 1 .null).getStr?
    let i ← (arr.getD 2 .null).getNat?
    .ok (.field (b == "b") i)
  | "named" => do let n ← (arr.getD 1 .null).getStr?; .ok (.named n.toList)
  | "alias" => do let n ← (arr.getD 1 .null).getStr?; .ok (.alias n.toList)
  | _ => .ok .other

def decStrList (j : Json) : Except String (List Str) := do
  let arr ← j.getArr?
  arr.toList.mapM (fun x => do let s ← x.getStr?; pure s.toList)

def opHeader (payload : String) : String :=
  match Json.parse payload with
  | .error e => "bad-json " ++ e
  | .ok j =>
    match (do
      let dc := (optField j "dc").map (fun v => v == Json.bool true) |>.getD false
      let ih ← match optField j "ih" with | some v => do let l ← decStrList v; pure (some l) | none => pure none
      let jh ← match optField j "jh" with | some v => do let l ← decStrList v; pure (some l) | none => pure none
      let infos ← (← (← j.getObjVal? "infos").getArr?).toList.mapM decColInfo
      let ex ← match optField j "except" with
        | some v => do let arr ← v.getArr?; let l ← arr.toList.mapM (·.getNat?); pure (some l)
        | none => pure none
      let upd := (optField j "update").map (fun v => v == Json.bool true) |>.getD false
      pure (dc, ih, jh, infos, ex, upd) : Except String _) with
    | .error e => "bad-case " ++ e
    | .ok (dc, ih, jh, infos, ex, upd) =>
      match (if upd then .ok (updateHeader ih) else queryHeader dc ih jh infos ex) with
      | .error _ => "{\"err\":\"star-and-alias\"}"
      | .ok none => "{\"header\":null}"
      | .ok (some h) => (Json.mkObj [("header", .arr (h.map (fun s => Json.str (String.ofList s))).toArray)]).compress



/-! ### the Python `ast` route to column infos (Model/PyAst.lean) -/

partial def decPyNode (j : Json) : Except String PyNode := do
  let k ← (← j.getObjVal? "k").getStr?
  let kids : Except String (List PyNode) := do
    match optField j "c" with
    | some v => do let arr ← v.getArr?; arr.toList.mapM decPyNode
    | none => pure []
  match k with
  | "name" => do let id ← (← j.getObjVal? "id").getStr?; pure (.name id.toList)
  | "attr" => do
    let a ← (← j.getObjVal? "attr").getStr?
    let v ← decPyNode (← j.getObjVal? "v")
    pure (.attribute v a.toList)
  | "sub" => do
    let v ← decPyNode (← j.getObjVal? "v")
    let s ← decPyNode (← j.getObjVal? "s")
    pure (.subscript v s)
  | "cstr" => do let s ← (← j.getObjVal? "s").getStr?; pure (.constant (.str s.toList))
  | "cint" => do let s ← (← j.getObjVal? "n").getStr?; pure (.constant (.int (s.toInt?.getD 0)))
  | "cbool" => pure (.constant .bool)
  | "cother" => pure (.constant .other)
  | "call" => do
    let f ← decPyNode (← j.getObjVal? "f")
    let a ← (← (← j.getObjVal? "a").getArr?).toList.mapM decPyNode
    let r ← (← (← j.getObjVal? "r").getArr?).toList.mapM decPyNode
    pure (.call f a r)
  | _ => do let cs ← kids; pure (.other cs)

def encColInfoTok : ColInfo → String
  | .star none => "S*"
  | .star (some false) => "Sa"
  | .star (some true) => "Sb"
  | .field isB i => "F" ++ (if isB then "b" else "a") ++ toString i
  | .named n => "N" ++ encStr n
  | .alias n => "A" ++ encStr n
  | .other => "O"

def opPyInfos (payload : String) : String :=
  match Json.parse payload with
  | .error e => "bad-json " ++ e
  | .ok j =>
    match (do
      let stmts ← (← (← j.getObjVal? "stmts").getArr?).toList.mapM (fun st => do (← st.getArr?).toList.mapM decPyNode)
      let isTuple := (optField j "tuple").map (fun v => v == Json.bool true) |>.getD false
      let elts ← (← (← j.getObjVal? "elts").getArr?).toList.mapM decPyNode
      pure ({ stmts := stmts, isTuple := isTuple, bracketElts := elts } : PyTop) : Except String PyTop) with
    | .error e => "bad-case " ++ e
    | .ok t =>
      match pyColumnInfos t with
      | .ok infos => "ok " ++ (if infos.isEmpty then "~" else " ".intercalate (infos.map encColInfoTok))
      | .error .code118 => "err 118"
      | .error .code119 => "err 119"
      | .error .badAlias => "err alias"

end Driver
