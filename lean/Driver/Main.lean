import Rbql.Model.Basic
import Rbql.Model.Csv
import Rbql.Model.ReaderPy
import Driver.Codec
open Rbql Driver

def decPolicy (s : String) : Policy :=
  match s with
  | "simple" => .simple | "quoted" => .quoted | "quoted_rfc" => .quotedRfc
  | "whitespace" => .whitespace | _ => .monocolumn

def decEnc (s : String) : Enc :=
  match s with | "utf-8" => .utf8 | "latin-1" => .latin1 | _ => .none

def encWarn : ReadWarn → String
  | .bom => "bom"
  | .defective l => s!"defective:{l}"
  | .fields a b c d => s!"fields:{a}:{b}:{c}:{d}"

def encWarns (ws : List ReadWarn) : String :=
  if ws.isEmpty then "~" else ",".intercalate (ws.map encWarn)

def step (line : String) : String :=
  match line.splitOn " " with
  | ["split", pol, pres, d, s] =>
    let r := smartSplit (decStr d) (decPolicy pol) (decBool pres) (decStr s)
    s!"{encList r.1} {encBool r.2}"
  | ["quote", rfc, js, d, f] =>
    let d := decStr d; let f := decStr f
    let r := match decBool rfc, decBool js with
      | false, false => quoteField d f | false, true => quoteFieldJs d f
      | true, false => rfcQuoteField d f | true, true => rfcQuoteFieldJs d f
    encStr r
  | ["unquote", py, f] => encStr (unquoteField (decBool py) (decStr f))
  | ["lines", s] => encList (linesSpec (decStr s))
  | ["readpy", pol, enc, hdr, modi, chunk, d, comment, pieces] =>
    let c : RCfg := { chunk := chunk.toNat!, delim := decStr d, policy := decPolicy pol,
                      comment := if comment == "~" then none else some (decStr comment), enc := decEnc enc }
    let m := match modi with | "h" => some true | "N" => some false | _ => none
    match readAll c (decBool hdr) m (decList pieces) with
    | .error (.rfcQuote nr nl) => s!"err rfc {nr} {nl}"
    | .ok r => s!"ok {encOptList r.header} {encTable r.records} {encWarns r.warnings}"
  | _ => "bad-op"

partial def loop (h : IO.FS.Stream) (out : IO.FS.Stream) : IO Unit := do
  let line ← h.getLine
  if line.isEmpty then return ()
  out.putStrLn (step (line.trimAsciiEnd.toString))
  loop h out

def main : IO Unit := do
  let out ← IO.getStdout
  loop (← IO.getStdin) out
