import Rbql.Model.Basic
import Rbql.Model.Csv
import Rbql.Model.ReaderPy
import Rbql.Model.ReaderJs
import Rbql.Model.Utf8
import Rbql.Model.Writer
import Rbql.Model.Like
import Rbql.Model.PyString
import Rbql.Model.TablePath
import Rbql.Model.Sources
import Rbql.Model.Parse
import Rbql.Model.ParseJs
import Rbql.Model.Translate
import Rbql.Model.Cli
import Rbql.Model.Variables
import Rbql.Model.JoinResolve
import Driver.Codec
import Driver.EngineOps
open Rbql Driver

def decPolicy (s : String) : Policy :=
  match s with
  | "simple" => .simple | "quoted" => .quoted | "quoted_rfc" => .quotedRfc
  | "whitespace" => .whitespace | _ => .monocolumn

def decEnc (s : String) : Enc :=
  match s with | "utf-8" => .utf8 | "latin-1" => .latin1 | _ => .none

def encWarn : ReadWarn → String
  | .bom => "bom"
  | .defective l => s!"defective:{l}"
  | .fields a b c d => s!"fields:{a}:{b}:{c}:{d}"

def warnRank : ReadWarn → Nat
  | .bom => 0 | .defective _ => 1 | .fields .. => 2

def encWarns (ws : List ReadWarn) : String :=
  let ws := (ws.filter (warnRank · == 0)) ++ (ws.filter (warnRank · == 1)) ++ (ws.filter (warnRank · == 2))
  if ws.isEmpty then "~" else ",".intercalate (ws.map encWarn)

def mkCfg (pol enc chunk d comment : String) : RCfg :=
  { chunk := chunk.toNat!, delim := decStr d, policy := decPolicy pol,
    comment := if comment == "~" then none else some (decStr comment), enc := decEnc enc }

def decMod (m : String) : Option Bool :=
  match m with | "h" => some true | "N" => some false | _ => none

def encRead (r : Except ReadErr ReadResult) : String :=
  match r with
  | .error (.rfcQuote nr nl) => s!"err rfc {nr} {nl}"
  | .ok r => s!"ok {encOptList r.header} {encTable r.records} {encWarns r.warnings}"

def decCell (s : String) : Option Str := if s == "N" then none else some (decStr s)
def decCells (s : String) : List (Option Str) := if s == "!" then [] else (s.splitOn ",").map decCell
def decCellTable (s : String) : List (List (Option Str)) := if s == "~" then [] else (s.splitOn ";").map decCells
/-- general cells: `N`, an encoded string, or `L` followed by `+`-separated items (`L!` = empty list) -/
def decGCell (s : String) : Cell :=
  if s == "N" then .none
  else if s.startsWith "L" then
    let body := (s.drop 1).toString
    .list (if body == "!" then [] else (body.splitOn "+").map decCell)
  else .str (decStr s)
def decGCells (s : String) : List Cell := if s == "!" then [] else (s.splitOn ",").map decGCell
def decGCellTable (s : String) : List (List Cell) := if s == "~" then [] else (s.splitOn ";").map decGCells

def encWrite (r : Except WriteErr WState) : String :=
  match r with
  | .error .mono => "err mono"
  | .error (.width a b) => s!"err width {a} {b}"
  | .ok st => s!"ok {encStr st.out} none={encBool st.noneSeen} delim={encBool st.delimInSimple}"

def doWrite (pol js d linesep hdr table : String) : Except WriteErr WState :=
  let c : WCfg := { delim := decStr d, policy := decPolicy pol, lineSep := decStr linesep, js := decBool js }
  writeAllCells c (if hdr == "N" then none else some (decList (hdr.drop 1).toString)) (decGCellTable table)

def encStmt : Stmt → String
  | .strictLeftJoin => "STRICT LEFT JOIN" | .leftOuterJoin => "LEFT OUTER JOIN" | .leftJoin => "LEFT JOIN" | .innerJoin => "INNER JOIN"
  | .join => "JOIN" | .select => "SELECT" | .orderBy => "ORDER BY" | .where_ => "WHERE" | .update => "UPDATE" | .groupBy => "GROUP BY"
  | .limit => "LIMIT" | .except => "EXCEPT" | .from => "FROM"

def encParseErr : ParseError → String
  | .moreThanOne s => "err more-than-one " ++ (encStmt s).replace " " "_"
  | .updateNotFirst => "err update-not-first" | .selectNotFirst => "err select-not-first"
  | .noSelectNoUpdate => "err no-select-no-update" | .bothSelectUpdate => "err both-select-update"
  | .limitNotInt => "err limit-not-int" | .invalidJoin => "err invalid-join"

def stmtRank : Stmt → Nat
  | .join => 0 | .select => 1 | .orderBy => 2 | .where_ => 3 | .update => 4 | .groupBy => 5 | .limit => 6 | .except => 7 | _ => 8

def encAction (a : Action) : String :=
  let opt (o : Option String) := match o with | some x => x | none => "~"
  s!"{(encStmt a.stmt).replace " " "_"}:{encStr a.text}:{opt (a.joinSubtype.map (fun s => (encStmt s).replace " " "_"))}:{opt (a.reverse.map encBool)}:{opt (a.top.map toString)}:{encBool a.distinct}:{encBool a.distinctCount}"

def encActions (r : Except ParseError Actions) : String :=
  match r with
  | .error e => encParseErr e
  | .ok a =>
    let sorted := (List.range 9).flatMap (fun k => a.actions.filter (fun x => stmtRank x.stmt == k))
    let w := match a.withModifier with | some x => encStr x | none => "~"
    s!"ok {w} " ++ " ".intercalate (sorted.map encAction)

def encColInfo : ColInfo → String
  | .star none => "S*" | .star (some false) => "Sa" | .star (some true) => "Sb"
  | .field b i => (if b then "Fb" else "Fa") ++ toString i
  | .named n => "N" ++ encStr n
  | .alias n => "A" ++ encStr n
  | .other => "O"

def encNats (l : List Nat) : String := if l.isEmpty then "!" else ",".intercalate (l.map toString)

def encVarMap (m : VarMap) : String :=
  if m.isEmpty then "ok ~" else "ok " ++ " ".intercalate (m.map (fun e => s!"{encStr e.1}={encBool e.2.init}:{e.2.index}"))

/-- ops of the query-translation layer (Model/Translate.lean) -/
def encNumLit : NumLit → String
  | .int n => "I" ++ toString n
  | .dec q => "D" ++ toString q.num ++ "/" ++ toString q.den
  | .nonFinite => "NF"
  | .bad => "BAD"

def stepTranslate (ws : List String) : Option String :=
  match ws with
  | ["starcount", js, s] => some (encStr (if decBool js then replaceStarCountJs (decStr s) else replaceStarCountPy (decStr s)))
  | ["starvars", js, s] => some (encStr (replaceStarVars (decBool js) (decStr s)))
  | ["starmarker", js, s] => some (encStr (replaceStarVarsMarker (decBool js) (decStr s)))
  | ["subas", py, mode, s] =>
    some (encStr (subAsAlias (decBool py) (if mode == "call" then aliasPseudoCall else fun _ => []) 0 (decStr s)))
  | ["trsel", js, s] =>
    some (match (if decBool js then translateSelectJs (decStr s) else translateSelectPy (decStr s)) with
      | .ok (a, b) => s!"ok {encStr a} {encStr b}"
      | .error _ => "err empty")
  | ["updpairs", js, s] =>
    some (match updatePairs (if decBool js then jsStrStrip else pyStripU) (decStr s) with
      | .ok ps => "ok " ++ encTable (ps.map (fun p => [p.1, p.2]))
      | .error _ => "err notassign")
  | ["basicvars", py, pfx, s] => some (encNats (basicVarNums (decBool py) ((decStr pfx).headD 'a') 0 0 (decStr s)))
  | ["arrayvars", pfx, s] => some (encNats (arrayVarNums ((decStr pfx).headD 'a') 0 0 (decStr s)))
  | ["spans", s] =>
    some (match rootSpans (decStr s) with
      | .ok l => "ok " ++ encList l
      | .error (.noOpening c) => "err open " ++ encStr [c]
      | .error (.noClosing c) => "err close " ++ encStr [c])
  | ["colinfos", s, lits] =>
    some (match adhocColumnInfos (decStr s) (decList lits) with
      | .ok l => "ok " ++ " ".intercalate (l.map encColInfo)
      | .error (.noOpening c) => "err open " ++ encStr [c]
      | .error (.noClosing c) => "err close " ++ encStr [c])
  | ["selinfos", _js, s, lits] =>
    -- the rbql-js route from a select-list text to its column infos: translate, then the span parser
    some (match translateSelectJs (decStr s) with
      | .error _ => "err empty"
      | .ok (_, hdr) =>
        match adhocColumnInfos hdr (decList lits) with
        | .ok l => "ok " ++ " ".intercalate (l.map encColInfo)
        | .error (.noOpening c) => "err open " ++ encStr [c]
        | .error (.noClosing c) => "err close " ++ encStr [c])
  | ["clidialect", d, pol, fmt] =>
    -- which dialects `python -m rbql` hands to query_csv (Model/Cli.lean)
    let decP (s : String) : Option CliPolicy := match s with
      | "simple" => some .simple | "quoted" => some .quoted | "quoted_rfc" => some .quotedRfc
      | "whitespace" => some .whitespace | "monocolumn" => some .monocolumn | _ => none
    let encP : CliPolicy → String
      | .simple => "simple" | .quoted => "quoted" | .quotedRfc => "quoted_rfc" | .whitespace => "whitespace" | .monocolumn => "monocolumn"
    let f : OutFormat := match fmt with | "csv" => .csv | "tsv" => .tsv | "monocolumn" => .monocolumn | _ => .input
    let r := cliDialects (decStr d) (decP pol) f
    some s!"{encStr r.inDelim} {encP r.inPolicy} {encStr r.outDelim} {encP r.outPolicy}"
  | ["clidoor", v, c, o, pol, d, q] =>
    -- the front door of `python -m rbql` (Model/Cli.lean: cliDoor)
    let decP (s : String) : Option CliPolicy := match s with
      | "simple" => some .simple | "quoted" => some .quoted | "quoted_rfc" => some .quotedRfc
      | "whitespace" => some .whitespace | "monocolumn" => some .monocolumn | _ => none
    let encP : CliPolicy → String
      | .simple => "simple" | .quoted => "quoted" | .quotedRfc => "quoted_rfc" | .whitespace => "whitespace" | .monocolumn => "monocolumn"
    let a : CliArgs := { version := decBool v, color := decBool c, hasOutput := decBool o, policy := decP pol,
                         delim := if d == "N" then none else some (decStr (d.drop 1).toString), hasQuery := decBool q }
    some (match cliDoor a with
      | .printVersion => "version"
      | .refuse .colorWithOutput => "refuse color-output"
      | .refuse .policyWithoutDelim => "refuse policy-without-delim"
      | .refuse .colorInteractive => "refuse color-interactive"
      | .refuse .delimRequired => "refuse delim-required"
      | .interactive => "interactive"
      | .run dl p => s!"run {encStr dl} {encP p}")
  | ["dictvars", js, pfx, query, names] =>
    some (encVarMap (parseDictionaryVariables (decBool js) (decStr query) ((decStr pfx).headD 'a') (decList names) []))
  | ["attrvars", js, pfx, query, names] =>
    some (match parseAttributeVariables (decBool js) (decStr query) ((decStr pfx).headD 'a') (decList names) [] with
      | .ok m => encVarMap m
      | .error _ => "err notfound")
  | ["directvars", query, names] =>
    some (match mapVariablesDirectly (decStr query) (decList names) [] with
      | .ok m => encVarMap m
      | .error _ => "err badname")
  | ["joinresolve", inm, jm, pairs] =>
    let decMap (t : String) : VarMap := (decTable t).map (fun r => (r.getD 0 [], { init := true, index := (String.ofList (r.getD 1 [])).toNat! }))
    let encKeys (l : List (Option Nat)) : String := if l.isEmpty then "!" else ",".intercalate (l.map (fun o => match o with | none => "N" | some i => toString i))
    some (match resolveJoinVariables (decMap inm) (decMap jm) [] ((decTable pairs).map (fun r => (r.getD 0 [], r.getD 1 []))) with
      | .ok (l, r) => s!"ok {encKeys l} {encKeys r}"
      | .error (.ambiguous _) => "err ambiguous"
      | .error (.noInputField _) => "err no-input-field"
      | .error (.noJoinField _) => "err no-join-field")
  | ["exceptcols", js, inm, text] =>
    let decMap (t : String) : VarMap := (decTable t).map (fun r => (r.getD 0 [], { init := true, index := (String.ofList (r.getD 1 [])).toNat! }))
    some (match translateExcept (if decBool js then jsStrStrip else pyStripU) (decMap inm) [] (decStr text) with
      | .ok l => "ok " ++ encNats l
      | .error _ => "err unknown")
  | ["tablevars", js, pfx, query, names, norm, width] =>
    some (match tableVariablesMap (decBool js) (decStr query) ((decStr pfx).headD 'a') (if names == "N" then none else some (decList (names.drop 1).toString))
              (decBool norm) (if width == "~" then none else some width.toNat!) with
      | .ok m => encVarMap m
      | .error .widthMismatch => "err width"
      | .error (.var (.columnNotFound _)) => "err notfound"
      | .error (.var (.badDirectName _)) => "err badname"
      | .error (.var (.ambiguous _)) => "err ambiguous")
  | ["pynum", s] =>
    -- NumHandler.parse in integer mode and in float mode (Model/Number.lean)
    some (encNumLit (numHandlerParseStr true (decStr s)).1 ++ " " ++ encNumLit (numHandlerParseStr false (decStr s)).1)
  | ["jsnum", s] => some (encNumLit (jsNumber (decStr s)))
  | ["numhandler", startInt, l] => some (" ".intercalate ((numHandlerRun (decBool startInt) (decList l)).map encNumLit))
  | ["itervars", kind, js, pfx, query, names, norm] =>
    let k : IterKind := match kind with | "pandas" => .pandas | "csv" => .csv | "sqlite" => .sqlite | _ => .table
    some (match iteratorVariablesMap k (decBool js) (decStr query) ((decStr pfx).headD 'a') (if names == "N" then none else some (decList (names.drop 1).toString))
              (decBool norm) none with
      | .ok m => encVarMap m
      | .error .widthMismatch => "err width"
      | .error (.var (.columnNotFound _)) => "err notfound"
      | .error (.var (.badDirectName _)) => "err badname"
      | .error (.var (.ambiguous _)) => "err ambiguous")
  | ["tablepath", cwd, home, mainDir, tableId, files, index] =>
    -- find_table_path over an abstract file system (Model/TablePath.lean)
    let env : FsEnv := { files := decList files, cwd := decStr cwd, home := decStr home,
                         indexLines := if index == "N" then none else some (decList (index.drop 1).toString) }
    some (match findTablePath env (if mainDir == "N" then none else some (decStr (mainDir.drop 1).toString)) (decStr tableId) with
      | some p => "S" ++ encStr p
      | none => "N")
  | ["unquotestr", s] => some (match unquoteString (decStr s) with | some v => "S" ++ encStr v | none => "N")
  | _ => none

def step (line : String) : String :=
  match stepTranslate (line.splitOn " ") with
  | some r => r
  | none =>
  match line.splitOn " " with
  | ["split", pol, pres, d, s] =>
    let r := smartSplit (decStr d) (decPolicy pol) (decBool pres) (decStr s)
    s!"{encList r.1} {encBool r.2}"
  | ["quote", rfc, js, d, f] =>
    let d := decStr d; let f := decStr f
    let r := match decBool rfc, decBool js with
      | false, false => quoteField d f | false, true => quoteFieldJs d f
      | true, false => rfcQuoteField d f | true, true => rfcQuoteFieldJs d f
    encStr r
  | ["unquote", py, f] => encStr (unquoteField (decBool py) (decStr f))
  | ["lines", s] => encList (linesSpec (decStr s))
  | ["readpy", pol, enc, hdr, modi, chunk, d, comment, pieces] =>
    encRead (readAll (mkCfg pol enc chunk d comment) (decBool hdr) (decMod modi) (decList pieces))
  | ["readpyall", pol, enc, hdr, modi, d, comment, text, _bytes] =>
    -- the model reads the text whole; chunk independence is a theorem (C12)
    let t := decStr text
    let c := mkCfg pol enc (toString (t.length + 1)) d comment
    encRead (readAll c (decBool hdr) (decMod modi) (if t.isEmpty then [] else [t]))
  | ["readjs", pol, enc, hdr, modi, d, comment, pieces] =>
    let c := mkCfg pol enc "0" d comment
    encRead (jsResult (jsStream c (decList pieces)) (decBool hdr) (decMod modi))
  | ["utf8dec", chunks] =>
    -- the streaming UTF-8 decoder of the rbql-js reader: one decoded piece per byte chunk, or a decoding error
    (match decodeStream ((decList chunks).map (fun ch => ch.map (fun c => c.toNat.toUInt8))) with
     | .ok ps => "ok " ++ encList ps
     | .error _ => "err")
  | ["readjsbytes", pol, hdr, modi, d, comment, chunks] =>
    -- byte chunks -> streaming decoder -> stream reader (what rbql-js does with a utf-8 input stream)
    let c := mkCfg pol "utf-8" "0" d comment
    (match decodeStream ((decList chunks).map (fun ch => ch.map (fun c => c.toNat.toUInt8))) with
     | .ok ps => encRead (jsResult (jsStream c ps) (decBool hdr) (decMod modi))
     | .error _ => "err decode")
  | ["readjsfile", pol, enc, hdr, modi, d, comment, text] =>
    let c := mkCfg pol enc "0" d comment
    encRead (jsResult (jsBulk c (decStr text)) (decBool hdr) (decMod modi))
  | ["readjsbulk", pol, enc, hdr, modi, d, comment, text] =>
    let c := mkCfg pol enc "0" d comment
    encRead (jsResult (jsBulk c (decStr text)) (decBool hdr) (decMod modi))
  | ["write", pol, js, d, linesep, hdr, table] => encWrite (doWrite pol js d linesep hdr table)
  | ["roundtrip", pol, js, enc, d, linesep, table] =>
    let w := doWrite pol js d linesep "N" table
    match w with
    | .error _ => encWrite w
    | .ok st =>
      let text := st.out
      let rd :=
        if decBool js then
          encRead (jsResult (jsStream (mkCfg pol enc "0" d "~") (if text.isEmpty then [] else [text])) false none)
        else
          let t := if enc == "none" then text else univNewlines text
          encRead (readAll (mkCfg pol enc (toString (t.length + 1)) d "~") false none (if t.isEmpty then [] else [t]))
      s!"{encWrite w} | {rd}"
  | ["cleanup", t] => encStr (cleanupQuery (decStr t))
  | ["seplitjs", t] => let r := separateLiteralsJs (decStr t); s!"{encStr r.1} {encList r.2}"
  | ["seplit", t] => let r := separateLiterals (decStr t); s!"{encStr r.1} {encList r.2}"
  | ["combine", e, lits] => encStr (combineLiterals (decStr e) (decList lits))
  | ["redundant", t] => encStr (removeRedundantTableName (decStr t))
  | ["actions", t] => encActions (separateActions (decStr t))
  | ["actionsjs", t] =>
    (match separateActionsJs (decStr t) with
     | .ok a => encActions (.ok a)
     | .err e => encActions (.error e)
     | .assertion => "err assertion")
  | ["joinexprjs", t] =>
    (match parseJoinExpressionJs (decStr t) with
     | .error e => encParseErr e
     | .ok (tid, pairs) => s!"ok {encStr tid} " ++ " ".intercalate (pairs.map (fun p => encStr p.1 ++ "=" ++ encStr p.2)))
  | ["parse", t] =>
    -- the whole shallow-parse pipeline: cleanup, literal separation, redundant table name, actions
    let fl := separateLiterals (cleanupQuery (decStr t))
    let fe := removeRedundantTableName fl.1
    s!"{encList fl.2} | " ++ encActions (separateActions fe)
  | ["joinexpr", t] =>
    (match parseJoinExpression (decStr t) with
     | .error e => encParseErr e
     | .ok (tid, pairs) => s!"ok {encStr tid} " ++ " ".intercalate (pairs.map (fun p => encStr p.1 ++ "=" ++ encStr p.2)))
  | ["sqlname", name] => (match sqliteStatement (decStr name) with | some st => "S" ++ encStr st | none => "N")
  | ["pyescape", q, name] => encStr (pyEscape (if q == "d" then QUOTE else SQUOTE) (decStr name))
  | ["pyeval", q, body] =>
    (match pyEvalBody (if q == "d" then QUOTE else SQUOTE) (decStr body) with
     | some v => "S" ++ encStr v
     | none => "N")
  | ["likebatch", js, table] =>
    String.ofList ((decTable table).map (fun r => if likeImpl (decBool js) (r.getD 0 []) (r.getD 1 []) then '1' else '0'))
  | ["likespec", table] =>
    String.ofList ((decTable table).map (fun r => if likeSpec (r.getD 1 []) (r.getD 0 []) then '1' else '0'))
  | ["readboth", pol, enc, hdr, modi, d, comment, text] =>
    -- one file, both readers: Python (through TextIOWrapper) and JS must deliver the same result
    let t := decStr text
    let tp := univNewlines t
    let cp := mkCfg pol enc (toString (tp.length + 1)) d comment
    let rp := encRead (readAll cp (decBool hdr) (decMod modi) (if tp.isEmpty then [] else [tp]))
    let rj := encRead (jsResult (jsStream (mkCfg pol enc "0" d comment) (if t.isEmpty then [] else [t])) (decBool hdr) (decMod modi))
    if rp == rj then rp else s!"MODELS-DIFFER py=[{rp}] js=[{rj}]"
  | ["readjsall", pol, enc, hdr, modi, d, comment, text, _bytes] =>
    -- the model reads in bulk; stream = bulk for every partition is a theorem (C20)
    let c := mkCfg pol enc "0" d comment
    encRead (jsResult (jsBulk c (decStr text)) (decBool hdr) (decMod modi))
  | _ => "bad-op"

def stepLine (line : String) : String :=
  if line.startsWith "queryjs " then opQueryJs (line.drop 8).toString
  else if line.startsWith "query " then opQuery (line.drop 6).toString
  else if line.startsWith "header " then opHeader (line.drop 7).toString
  else if line.startsWith "pyinfos " then opPyInfos (line.drop 8).toString
  else step line

partial def loop (h : IO.FS.Stream) (out : IO.FS.Stream) : IO Unit := do
  let line ← h.getLine
  if line.isEmpty then return ()
  out.putStrLn (stepLine (line.trimAsciiEnd.toString))
  loop h out

def main : IO Unit := do
  let out ← IO.getStdout
  loop (← IO.getStdin) out
