/-
  Line-protocol codec for the model driver.  Glue, not trusted: a bug here shows up as a
  disagreement on the unchanged tree.
  Str        : hex code points joined by '.', empty string = "-"
  List Str   : items joined by ',', empty list = "!"
  List (List Str) : records joined by ';', empty list = "~"
-/
import Rbql.Model.Basic
namespace Driver
open Rbql

def hexDigit (c : Char) : Nat :=
  if '0' ≤ c ∧ c ≤ '9' then c.toNat - '0'.toNat
  else if 'a' ≤ c ∧ c ≤ 'f' then c.toNat - 'a'.toNat + 10
  else 0

def hexToNat (s : String) : Nat := s.foldl (fun a c => a * 16 + hexDigit c) 0

def decStr (s : String) : Str :=
  if s == "-" then [] else (s.splitOn ".").map (fun h => Char.ofNat (hexToNat h))

def natToHex (n : Nat) : String := String.ofList (Nat.toDigits 16 n)

def encStr (s : Str) : String :=
  if s.isEmpty then "-" else ".".intercalate (s.map (fun c => natToHex c.toNat))

def decList (s : String) : List Str :=
  if s == "!" then [] else (s.splitOn ",").map decStr

def encList (l : List Str) : String :=
  if l.isEmpty then "!" else ",".intercalate (l.map encStr)

def decTable (s : String) : List (List Str) :=
  if s == "~" then [] else (s.splitOn ";").map decList

def encTable (t : List (List Str)) : String :=
  if t.isEmpty then "~" else ";".intercalate (t.map encList)

def encBool (b : Bool) : String := if b then "1" else "0"
def decBool (s : String) : Bool := s == "1"

def encOptList (o : Option (List Str)) : String :=
  match o with | none => "N" | some l => "S" ++ encList l

end Driver
