#!/usr/bin/env python3
"""Validate MANIFEST.json and every evidence file against the given schemas (python3-vt has jsonschema)."""
import json, sys, glob, os
import jsonschema
ROOT = os.path.dirname(os.path.dirname(os.path.abspath(__file__)))
jsonschema.validate(json.load(open(ROOT + '/MANIFEST.json')), json.load(open('/root/.vp/MANIFEST.schema.json')))
es = json.load(open('/root/.vp/EVIDENCE.schema.json'))
for p in sorted(glob.glob(ROOT + '/evidence/*.json')):
    jsonschema.validate(json.load(open(p)), es)
    print('ok', os.path.basename(p))
print('manifest ok')
