#!/usr/bin/env python3
"""C06 translator: derive the ROW FLOW of the engines from their source and write it as Lean data
(lean/Rbql/Generated/RowFlow.lean), regenerated on every check run.

A row variable is one of the names the main-loop templates and the writers use for record objects.  For every such name:
  binds    (x, alias|copy|fresh, y)   every statement `x = expr` / parameter passing, `expr` classified syntactically:
                                       a bare name = the same object (alias); `y[:]`, `list(y)`, `tuple(y)`, `y.slice()`, `Array.from(y)` = copy;
                                       list display, comprehension, `+` / `.concat(` of lists, `list()` = fresh; anything else = alias of
                                       the pseudo-input `?` (unknown: the check then fails if the name is mutated or written)
  mutated  x                           `x[i] = v`, `del x[i]`, `x += …`, `x.append/insert/…(…)`, `x.push/unshift/splice/…(…)`, and `f(x, …)`
                                       where `f` modifies that parameter in place (safe_set)
  written  x                           `….write(x)` / `….write(key, x)`
The select / update / except EXPRESSION texts are produced by the real translate_* functions on sample clauses (the module is
imported from the repository for that; a failure to import or translate is reported as an unknown binding).
Python: `ast` on the module, its code templates and the nested functions of compile_and_run.  JavaScript: line patterns on rbql.js
(declarations, assignments, method calls on the tracked names), comments stripped."""
import ast
import os
import re
import sys
import textwrap

ROW_NAMES = {'record_a', 'record_b', 'star_fields', 'out_fields', 'up_fields', 'folded_fields', 'mutable_record', 'record', 'fields', 'src', 'result',
             'immutable_record', 'sort_entry', 'stable_entry', 'entry'}
INPUTS = ['record_a', 'record_b', 'input_header', 'join_header']     # the header lists are what the iterators' get_header() returns: the caller's own lists
PY_MUTATORS = {'append', 'extend', 'insert', 'remove', 'pop', 'clear', 'sort', 'reverse', '__setitem__', '__delitem__'}
JS_MUTATORS = ['push', 'unshift', 'splice', 'pop', 'shift', 'sort', 'reverse', 'fill', 'copyWithin']
SAMPLE_SELECTS = ['*', 'a.*', 'b.*', 'a1', '*, a1', 'a1, *', 'a1, a2', '*, *', 'a.*, b.*', 'a1 as x', 'a2, a1 as x', 'COUNT(*)', 'a1, COUNT(*)', '* , a.*', ' * ']


def first_name(node):
    for n in ast.walk(node):
        if isinstance(n, ast.Name):
            return n.id
    return ''


def classify_py(node):
    """(kind, source) of the object a Python expression evaluates to, as far as lists are concerned"""
    if isinstance(node, ast.Name):
        return ('alias', node.id)
    if isinstance(node, ast.Subscript) and isinstance(node.value, ast.Name) and isinstance(node.slice, ast.Slice) \
            and node.slice.lower is None and node.slice.upper is None and node.slice.step is None:
        return ('copy', node.value.id)
    if isinstance(node, ast.Call):
        f = node.func
        if isinstance(f, ast.Name) and f.id in ('list', 'tuple', 'sorted') and len(node.args) == 1 and isinstance(node.args[0], ast.Name):
            return ('copy', node.args[0].id)
        if isinstance(f, ast.Name) and f.id in ('list', 'tuple') and not node.args:
            return ('fresh', '')
        if isinstance(f, ast.Attribute) and f.attr == 'copy' and isinstance(f.value, ast.Name) and not node.args:
            return ('copy', f.value.id)
        if isinstance(f, ast.Name) and f.id == 'select_except':
            return ('call', 'select_except')
    if isinstance(node, (ast.List, ast.ListComp, ast.Tuple)):
        return ('fresh', first_name(node))
    if isinstance(node, ast.BinOp) and isinstance(node.op, ast.Add):
        l = classify_py(node.left)
        r = classify_py(node.right)
        # list + list allocates; a chain of additions does as soon as one `+` is evaluated
        if l[0] != 'unknown' or r[0] != 'unknown':
            return ('fresh', first_name(node))
    if isinstance(node, ast.Constant) and node.value is None:
        return ('fresh', '')
    return ('unknown', ast.dump(node)[:60])


def parse_template(src):
    s = src
    s = re.sub(r'__RBQLMP__variables_init_code', 'pass', s)
    s = re.sub(r'__RBQLMP__update_expressions', '__UPDATE_EXPRESSIONS__', s)
    s = re.sub(r'__RBQLMP__select_expression', '__SELECT_EXPRESSION__', s)
    s = re.sub(r'__RBQLMP__\w+', 'None', s)
    s = s.replace('__USER_INIT_CODE__', 'pass').replace('__CODE__', 'pass')
    try:
        return ast.parse(textwrap.dedent(s))
    except SyntaxError:
        return None


class Flow(object):
    def __init__(self):
        self.binds = []
        self.mutated = []
        self.written = []
        self.notes = []

    def bind(self, x, kind, y):
        if kind == 'unknown':
            kind, y = 'alias', '?'
        t = (x, kind, y)
        if t not in self.binds:
            self.binds.append(t)

    def mutate(self, x):
        if x not in self.mutated:
            self.mutated.append(x)

    def write(self, x):
        if x not in self.written:
            self.written.append(x)


def mutating_params(tree):
    """function name -> indices of parameters the function body modifies in place"""
    out = {}
    for fn in ast.walk(tree):
        if not isinstance(fn, ast.FunctionDef):
            continue
        params = [a.arg for a in fn.args.args]
        idx = set()
        for n in ast.walk(fn):
            tgt = None
            if isinstance(n, (ast.Assign, ast.AugAssign)):
                for t in (n.targets if isinstance(n, ast.Assign) else [n.target]):
                    if isinstance(t, ast.Subscript) and isinstance(t.value, ast.Name):
                        tgt = t.value.id
                    if isinstance(n, ast.AugAssign) and isinstance(t, ast.Name):
                        tgt = t.id
            elif isinstance(n, ast.Delete):
                for t in n.targets:
                    if isinstance(t, ast.Subscript) and isinstance(t.value, ast.Name):
                        tgt = t.value.id
            elif isinstance(n, ast.Call) and isinstance(n.func, ast.Attribute) and n.func.attr in PY_MUTATORS and isinstance(n.func.value, ast.Name):
                tgt = n.func.value.id
            if tgt in params:
                # a parameter that is rebound to a copy first is not the caller's object any more: only flag parameters never rebound
                rebound = any(isinstance(m, ast.Assign) and any(isinstance(t, ast.Name) and t.id == tgt for t in m.targets) for m in ast.walk(fn))
                if not rebound:
                    idx.add(params.index(tgt))
        if idx:
            out[fn.name] = idx
    return out


SHARED = {'record_a', 'record_b', 'star_fields', 'out_fields', 'up_fields', 'folded_fields'}     # names of the main-loop templates and the select_* helpers
PY_FUNCS = ['select_simple', 'select_unnested']                                                     # helper functions on the row path (besides the templates)
WRITER_CLASSES = ['TopWriter', 'UniqWriter', 'UniqCountWriter', 'SortedWriter', 'AggregateWriter']   # the engine's own writer chain (the user's writer is the sink)
LOCAL = {'record', 'mutable_record', 'immutable_record', 'out_fields', 'fields', 'e', 'entry'}      # row variables inside a writer class


def qual(scope, name):
    return name if (scope is None or name in SHARED and scope in PY_FUNCS) else '%s.%s' % (scope, name)


def scan_py_tree(tree, flow, scope, tracked, funcs, mut_params, expr_classes):
    """scope None = a code template (shared names); a function name; or a writer class name (names qualified `Class.name`)"""
    def q(n):
        return qual(scope, n)
    for n in ast.walk(tree):
        if isinstance(n, ast.Assign) and len(n.targets) == 1:
            t = n.targets[0]
            if isinstance(t, ast.Name) and t.id in tracked and t.id not in INPUTS:
                if isinstance(n.value, ast.Name) and n.value.id == '__SELECT_EXPRESSION__':
                    for kind, src in expr_classes['select']:
                        flow.bind(q(t.id), kind, src)
                else:
                    kind, src = classify_py(n.value)
                    flow.bind(q(t.id), kind, q(src) if src in tracked else src)
            if isinstance(t, ast.Subscript) and isinstance(t.value, ast.Name) and t.value.id in tracked:
                flow.mutate(q(t.value.id))
        elif isinstance(n, ast.For) and isinstance(n.target, ast.Name) and n.target.id in tracked:
            # `for e in sorted_entries` / `for record, cnt in …`: elements of a container the writer filled itself
            pass
        elif isinstance(n, ast.AugAssign):
            t = n.target
            if isinstance(t, ast.Name) and t.id in tracked:
                flow.mutate(q(t.id))
            if isinstance(t, ast.Subscript) and isinstance(t.value, ast.Name) and t.value.id in tracked:
                flow.mutate(q(t.value.id))
        elif isinstance(n, ast.Delete):
            for t in n.targets:
                if isinstance(t, ast.Subscript) and isinstance(t.value, ast.Name) and t.value.id in tracked:
                    flow.mutate(q(t.value.id))
        elif isinstance(n, ast.Expr) and isinstance(n.value, ast.Name) and n.value.id == '__UPDATE_EXPRESSIONS__':
            for x in expr_classes['update_mutates']:
                flow.mutate(x)
        elif isinstance(n, ast.Call):
            f = n.func
            fname = f.id if isinstance(f, ast.Name) else (f.attr if isinstance(f, ast.Attribute) else None)
            if isinstance(f, ast.Attribute) and f.attr in PY_MUTATORS and isinstance(f.value, ast.Name) and f.value.id in tracked:
                flow.mutate(q(f.value.id))
            if isinstance(f, ast.Attribute) and f.attr == 'write' and n.args:
                a = n.args[-1]
                if isinstance(a, ast.Name) and a.id in tracked:
                    flow.write(q(a.id))
                elif isinstance(a, ast.Subscript) and isinstance(a.value, ast.Name):
                    # `self.subwriter.write(e[1])`: an element of an entry the writer stored: the stored record itself
                    flow.bind(q('stored'), 'alias', q('record'))
                    flow.write(q('stored'))
                else:
                    flow.bind(q('written_expr'), *classify_unknown(a))
                    flow.write(q('written_expr'))
            if isinstance(f, ast.Name) and fname in PY_FUNCS and fname in funcs:
                params = funcs[fname]
                for i, a in enumerate(n.args):
                    if i < len(params) and params[i] in SHARED and isinstance(a, ast.Name) and a.id != params[i]:
                        flow.bind(params[i], 'alias', q(a.id) if a.id in tracked else a.id)
            for i in mut_params.get(fname, ()):
                if isinstance(f, ast.Name) and i < len(n.args) and isinstance(n.args[i], ast.Name) and n.args[i].id in tracked:
                    flow.mutate(q(n.args[i].id))


def classify_unknown(node):
    k, s = classify_py(node)
    return (k, s)


def scan_python(engine_path, repo_py_dir):
    flow = Flow()
    src = open(engine_path).read()
    tree = ast.parse(src)
    funcs = {}
    for fn in ast.walk(tree):
        if isinstance(fn, ast.FunctionDef):
            ps = [a.arg for a in fn.args.args]
            if ps and ps[0] == 'self':
                ps = ps[1:]
            funcs.setdefault(fn.name, ps)
    mut_params = mutating_params(tree)
    expr_classes = {'select': [], 'update_mutates': [], 'select_except': []}
    for fn in ast.walk(tree):
        if isinstance(fn, ast.FunctionDef) and fn.name == 'select_except':
            local = {}
            for n in ast.walk(fn):
                if isinstance(n, ast.Assign) and len(n.targets) == 1 and isinstance(n.targets[0], ast.Name):
                    local[n.targets[0].id] = classify_py(n.value)
            for n in ast.walk(fn):
                if isinstance(n, ast.Return) and n.value is not None:
                    k, s = classify_py(n.value)
                    if k == 'alias' and s in local and local[s][0] in ('fresh', 'copy'):
                        k, s = 'fresh', ''
                    elif k == 'alias' and s in funcs.get('select_except', []):
                        k, s = 'alias', 'record_a'       # returns its argument: the input record
                    expr_classes['select_except'].append((k, s))
    if not expr_classes['select_except']:
        expr_classes['select_except'].append(('unknown', 'select_except not found'))
    try:
        sys.path.insert(0, repo_py_dir)
        for m in [k for k in sys.modules if k == 'rbql' or k.startswith('rbql.')]:
            del sys.modules[m]
        from rbql import rbql_engine
        class _W(rbql_engine.RBQLOutputWriter):
            def write(self, fields):
                return True

            def set_header(self, h):
                pass
        for text in SAMPLE_SELECTS:
            try:
                # the expression the main loop is actually generated with: everything shallow_parse_input_query does to the text included
                ctx = rbql_engine.RBQLContext(rbql_engine.TableIterator([['1', '2']]), _W(), None)
                qt = 'select ' + text
                reg = None
                if 'b.' in text:
                    qt += ' join b on a1 == b1'
                    reg = rbql_engine.ListTableRegistry([rbql_engine.ListTableInfo('b', [['1', '2']], None)])
                rbql_engine.shallow_parse_input_query(qt, ctx.input_iterator, reg, ctx)
                code = ctx.select_expression
                k, s = classify_py(ast.parse(code, mode='eval').body)
            except Exception as e:
                try:
                    code, _ = rbql_engine.translate_select_expression(text)
                    k, s = classify_py(ast.parse(code, mode='eval').body)
                    flow.notes.append('shallow_parse_input_query(select %s) failed (%s): translate_select_expression used' % (text, type(e).__name__))
                except Exception as e2:
                    k, s = 'unknown', 'translate_select_expression(%r): %s' % (text, type(e2).__name__)
            if (k, s) not in expr_classes['select']:
                expr_classes['select'].append((k, s))
        try:
            vm = {'a1': rbql_engine.VariableInfo(initialize=True, index=0), 'a2': rbql_engine.VariableInfo(initialize=True, index=1)}
            code = rbql_engine.translate_update_expression('a1 = a2, a2 = 5', vm, [])
            for n in ast.walk(ast.parse(code)):
                if isinstance(n, ast.Call) and isinstance(n.func, ast.Name) and n.func.id in mut_params:
                    for i in mut_params[n.func.id]:
                        if i < len(n.args) and isinstance(n.args[i], ast.Name) and n.args[i].id not in expr_classes['update_mutates']:
                            expr_classes['update_mutates'].append(n.args[i].id)
                if isinstance(n, ast.Assign) and isinstance(n.targets[0], ast.Subscript) and isinstance(n.targets[0].value, ast.Name):
                    if n.targets[0].value.id not in expr_classes['update_mutates']:
                        expr_classes['update_mutates'].append(n.targets[0].value.id)
            if not expr_classes['update_mutates']:
                flow.notes.append('the update code mutates nothing recognisable: %r' % code[:80])
        except Exception as e:
            expr_classes['update_mutates'].append('?')
            flow.notes.append('translate_update_expression failed: %s' % type(e).__name__)
        try:
            _h, code = rbql_engine.translate_except_expression('a1', {'a1': rbql_engine.VariableInfo(initialize=True, index=0)}, [], None)
            node = ast.parse(code, mode='eval').body
            if isinstance(node, ast.Call) and isinstance(node.func, ast.Name) and node.func.id == 'select_except':
                for ks in expr_classes['select_except']:
                    if ks not in expr_classes['select']:
                        expr_classes['select'].append(ks)
            else:
                expr_classes['select'].append(classify_py(node))
        except Exception as e:
            expr_classes['select'].append(('unknown', 'translate_except_expression: %s' % type(e).__name__))
    except Exception as e:
        expr_classes['select'].append(('unknown', 'rbql_engine could not be imported: %s' % type(e).__name__))
        expr_classes['update_mutates'].append('?')
    finally:
        if sys.path and sys.path[0] == repo_py_dir:
            sys.path.pop(0)
    # the code templates
    ntempl = 0
    for node in tree.body:
        if isinstance(node, ast.Assign) and isinstance(node.value, ast.Constant) and isinstance(node.value.value, str):
            s = node.value.value
            if '\n' in s and ('__CODE__' in s or '__RBQLMP__' in s):
                t = parse_template(s)
                ntempl += 1
                if t is None:
                    flow.bind('out_fields', 'unknown', 'template does not parse')
                else:
                    scan_py_tree(t, flow, None, SHARED, funcs, mut_params, expr_classes)
    if ntempl == 0:
        flow.bind('out_fields', 'unknown', 'no code template found')
    # helper functions and the writer chain
    found = set()
    for fn in ast.walk(tree):
        if isinstance(fn, ast.FunctionDef) and fn.name in PY_FUNCS:
            found.add(fn.name)
            scan_py_tree(fn, flow, fn.name, SHARED, funcs, mut_params, expr_classes)
    for cls in tree.body:
        if isinstance(cls, ast.ClassDef) and cls.name in WRITER_CLASSES:
            found.add(cls.name)
            scan_py_tree(cls, flow, cls.name, LOCAL, funcs, mut_params, expr_classes)
    for name in PY_FUNCS + WRITER_CLASSES:
        if name not in found:
            flow.notes.append('%s not found in the source' % name)
    # what a writer of the chain receives is what somebody upstream wrote
    for cls in WRITER_CLASSES:
        for w in list(flow.written):
            if not w.startswith(cls + '.'):
                flow.bind('%s.record' % cls, 'alias', w)
    scan_py_header_flow(tree, flow)
    return flow


def py_returns_kind(tree, fname):
    """'fresh' when every `return` of the module-level function gives None or a list the function built itself; else ('alias', parameter) / 'unknown'"""
    for fn in tree.body:
        if isinstance(fn, ast.FunctionDef) and fn.name == fname:
            params = [a.arg for a in fn.args.args]
            local = {}
            for n in ast.walk(fn):
                if isinstance(n, ast.Assign) and len(n.targets) == 1 and isinstance(n.targets[0], ast.Name):
                    local.setdefault(n.targets[0].id, []).append(classify_py(n.value))
            worst = ('fresh', '')
            for n in ast.walk(fn):
                if isinstance(n, ast.Return) and n.value is not None:
                    k, src = classify_py(n.value)
                    if k == 'alias':
                        if src in params:
                            return ('alias', src)
                        ks = local.get(src, [('unknown', src)])
                        if any(kk not in ('fresh', 'copy') for kk, _s in ks):
                            return ('unknown', src)
                    elif k not in ('fresh', 'copy'):
                        return ('unknown', src)
            return worst
    return ('unknown', fname)


def classify_header_arg(tree, fn, node):
    """kind of the object handed to set_header, relative to input_header / join_header"""
    if isinstance(node, ast.IfExp):
        a, b = classify_header_arg(tree, fn, node.body), classify_header_arg(tree, fn, node.orelse)
        for k in ('unknown', 'alias'):
            for x in (a, b):
                if x[0] == k:
                    return x
        return a if a[0] == 'copy' else b
    k, src = classify_py(node)
    if k == 'alias' and src not in ('input_header', 'join_header'):
        # a local: look at what it is assigned from inside the function
        kinds = []
        for n in ast.walk(fn):
            if isinstance(n, ast.Assign) and len(n.targets) == 1 and isinstance(n.targets[0], ast.Name) and n.targets[0].id == src:
                v = n.value
                if isinstance(v, ast.Call) and isinstance(v.func, ast.Name):
                    rk = py_returns_kind(tree, v.func.id)
                    if rk[0] == 'alias':
                        # returns one of its parameters: which argument is that?
                        for f2 in tree.body:
                            if isinstance(f2, ast.FunctionDef) and f2.name == v.func.id:
                                ps = [a.arg for a in f2.args.args]
                                i = ps.index(rk[1])
                                kinds.append(classify_header_arg(tree, fn, v.args[i]) if i < len(v.args) else ('unknown', src))
                    else:
                        kinds.append(rk)
                else:
                    kinds.append(classify_header_arg(tree, fn, v) if not (isinstance(v, ast.Name) and v.id == src) else ('unknown', src))
        if not kinds:
            return ('unknown', src)
        for kk in ('unknown', 'alias'):
            for x in kinds:
                if x[0] == kk:
                    return x
        return kinds[0]
    return (k, src)


def scan_py_header_flow(tree, flow):
    found = False
    for fn in tree.body:
        if isinstance(fn, ast.FunctionDef) and fn.name == 'shallow_parse_input_query':
            for n in ast.walk(fn):
                if isinstance(n, ast.Call) and isinstance(n.func, ast.Attribute) and n.func.attr == 'set_header' and len(n.args) == 1:
                    found = True
                    k, src = classify_header_arg(tree, fn, n.args[0])
                    flow.bind('writer_header', k if k in ('alias', 'copy', 'fresh') else 'unknown', src)
    if not found:
        flow.bind('writer_header', 'unknown', 'no set_header call found in shallow_parse_input_query')
    flow.write('writer_header')


JS_ID = r'[A-Za-z_$][A-Za-z0-9_$]*'


def classify_js(expr):
    e = expr.strip().rstrip(';').strip()
    if e == '__RBQLMP__select_expression':
        return ('select', '')
    if e in ('null', 'undefined'):
        return ('fresh', '')
    if re.fullmatch(JS_ID, e):
        return ('alias', e)
    m = re.fullmatch(r'(%s)\.slice\(\s*\)' % JS_ID, e)
    if m:
        return ('copy', m.group(1))
    m = re.fullmatch(r'Array\.from\(\s*(%s)\s*\)' % JS_ID, e) or re.fullmatch(r'\[\s*\.\.\.(%s)\s*\]' % JS_ID, e)
    if m:
        return ('copy', m.group(1))
    if e.startswith('[') or re.match(r'(%s)\.concat\(' % JS_ID, e) or e == 'null' or re.match(r'new Array\(', e) or re.match(r'Array\(', e):
        m = re.search(JS_ID, e.lstrip('['))
        return ('fresh', m.group(0) if m and m.group(0) in ROW_NAMES else '')
    if e == '__RBQLMP__select_expression':
        return ('select', '')
    return ('unknown', e[:60])


def js_regions(code):
    """(scope, text) for the code templates, the select_* helpers and the writer classes of rbql.js"""
    out = []
    for m in re.finditer(r'const (PROCESS_\w+) = `(.*?)`;', code, re.S):
        out.append((None, m.group(2)))
    for name in PY_FUNCS:
        m = re.search(r'(?:async )?function %s\(([^)]*)\) \{(.*?)\n\}' % name, code, re.S)
        if m:
            out.append((name, m.group(2)))
    for name in WRITER_CLASSES:
        m = re.search(r'class %s \{(.*?)\n\}' % name, code, re.S)
        if m:
            out.append((name, m.group(1)))
    return out


def scan_js(js_path, node_cmd='node'):
    flow = Flow()
    text = open(js_path).read()
    import subprocess
    import json
    script = ("const r=require(%s);let out={sel:[],upd:null,exc:null};for(const t of %s){try{out.sel.push(r.translate_select_expression(t)[0]);}catch(e){out.sel.push('!'+e);}}"
              "try{out.upd=r.translate_update_expression('a1 = a2, a2 = 5',{a1:{index:0},a2:{index:1}},[],'');}catch(e){out.upd='!'+e;}"
              "try{out.exc=r.translate_except_expression('a1',{a1:{index:0}},[],null)[1];}catch(e){out.exc='!'+e;}console.log(JSON.stringify(out));") % (json.dumps(js_path), json.dumps(SAMPLE_SELECTS))
    try:
        r = subprocess.run([node_cmd, '-e', script], stdout=subprocess.PIPE, stderr=subprocess.PIPE, timeout=60)
        out = json.loads(r.stdout.decode().strip().split('\n')[-1])
    except Exception as e:
        out = {'sel': ['!' + type(e).__name__], 'upd': '!', 'exc': '!'}
    select_classes = []
    for code in out['sel']:
        ks = classify_js(code) if not code.startswith('!') else ('unknown', code[:60])
        if ks not in select_classes:
            select_classes.append(ks)
    m = re.search(r'function select_except\(src, except_fields\) \{(.*?)\n\}', text, re.S)
    exc_classes = []
    if m:
        body = m.group(1)
        decl = dict((a, classify_js(b)) for a, b in re.findall(r'(?:let|var|const)\s+(%s)\s*=\s*([^;]+);' % JS_ID, body))
        for ret in re.findall(r'return\s+([^;]+);', body):
            k, s2 = classify_js(ret)
            if k == 'alias' and s2 in decl and decl[s2][0] in ('fresh', 'copy'):
                k, s2 = 'fresh', ''
            elif k == 'alias' and s2 == 'src':
                k, s2 = 'alias', 'record_a'
            exc_classes.append((k, s2))
    if not exc_classes:
        exc_classes.append(('unknown', 'select_except not found'))
    if isinstance(out.get('exc'), str) and out['exc'].startswith('select_except('):
        for ks in exc_classes:
            if ks not in select_classes:
                select_classes.append(ks)
    else:
        select_classes.append(('unknown', 'translate_except_expression: %s' % str(out.get('exc'))[:40]))
    upd_mut = re.findall(r'safe_set\((%s),' % JS_ID, out['upd']) if isinstance(out.get('upd'), str) and not out['upd'].startswith('!') else ['?']
    upd_mut = list(dict.fromkeys(upd_mut)) or ['?']
    lines = []
    for ln in text.split('\n'):
        ln = re.sub(r'(^|[^:\'"`])//.*$', r'\1', ln)
        lines.append(ln)
    code = '\n'.join(lines)
    regions = js_regions(code)
    if not any(sc is None for sc, _ in regions):
        flow.bind('out_fields', 'unknown', 'no code template found')
    for name in PY_FUNCS + WRITER_CLASSES:
        if not any(sc == name for sc, _ in regions):
            flow.notes.append('%s not found in the source' % name)
    for scope, body in regions:
        tracked = SHARED if (scope is None or scope in PY_FUNCS) else LOCAL | {'stable_entry', 'sort_entry'}
        if scope in PY_FUNCS:
            tracked = SHARED | {'sort_entry'}
        names = '|'.join(sorted(tracked, key=lambda x: -len(x)))

        def q(n, scope=scope):
            return n if (scope is None or (scope in PY_FUNCS and n in SHARED)) else '%s.%s' % (scope, n)
        for mm in re.finditer(r'(?:^|[;{}\s(])(?:let|var|const)?\s*\b(%s)\s*=(?!=)\s*([^;\n]+);' % names, body, re.M):
            x, e = mm.group(1), mm.group(2)
            if x in INPUTS:
                continue        # the input names are inputs by definition
            k, s2 = classify_js(e)
            if k == 'unknown' and scope in WRITER_CLASSES and re.fullmatch(r'(?:this\.)?%s\[[^\]]*\]' % JS_ID, e.strip()):
                k, s2 = 'alias', ('stable_entry' if scope == 'SortedWriter' else 'record')     # an element of a container the writer filled itself: what it was handed
            if k == 'select':
                for k2, s3 in select_classes:
                    flow.bind(q(x), k2, s3)
            else:
                flow.bind(q(x), k, q(s2) if s2 in tracked else s2)
        for mm in re.finditer(r'\b(%s)\[[^\]\n]*\]\s*=(?!=)' % names, body):
            flow.mutate(q(mm.group(1)))
        for mm in re.finditer(r'\b(%s)\.(%s)\(' % (names, '|'.join(JS_MUTATORS)), body):
            flow.mutate(q(mm.group(1)))
        if '__RBQLMP__update_expressions' in body:
            for x in upd_mut:
                flow.mutate(x)
        for mm in re.finditer(r'safe_set\((%s),' % names, body):
            flow.mutate(q(mm.group(1)))
        for mm in re.finditer(r'\.write\(\s*(%s)\s*\)' % names, body):
            flow.write(q(mm.group(1)))
        for mm in re.finditer(r'\.write\(\s*((?:%s)\[[^\]]*\])\s*\)' % JS_ID, body):
            # `this.subwriter.write(entry[entry.length - 1])`: the record stored in an entry
            flow.bind(q('stored'), 'alias', q('stable_entry') if scope == 'SortedWriter' else q('record'))
            flow.write(q('stored'))
        # calls of the select_* helpers with differently named arguments
        for fname in PY_FUNCS:
            fm = re.search(r'function %s\(([^)]*)\)' % fname, code)
            if not fm:
                continue
            params = [p.strip().split('=')[0].strip() for p in fm.group(1).split(',')]
            for mm in re.finditer(r'\b%s\(' % fname, body):
                # the argument list up to the matching parenthesis
                depth, j, cur, args = 1, mm.end(), '', []
                while j < len(body) and depth > 0:
                    ch = body[j]
                    if ch in '([{':
                        depth += 1
                    elif ch in ')]}':
                        depth -= 1
                        if depth == 0:
                            break
                    if ch == ',' and depth == 1:
                        args.append(cur.strip())
                        cur = ''
                    else:
                        cur += ch
                    j += 1
                args.append(cur.strip())
                if len(args) != len(params):
                    continue
                for p_, a in zip(params, args):
                    if p_ in SHARED and a != p_:
                        k, s2 = classify_js(a)
                        flow.bind(p_, k, q(s2) if s2 in tracked else s2)
    # sort_entry = sort_key.concat([NR, out_fields]) CONTAINS out_fields: what SortedWriter later hands on is that record
    for cls in WRITER_CLASSES:
        for w in list(flow.written):
            if not w.startswith(cls + '.'):
                for p_ in ('record', 'stable_entry'):
                    flow.bind('%s.%s' % (cls, p_), 'alias', 'out_fields' if w == 'sort_entry' else w)
    flow.written = [w for w in flow.written if w != 'sort_entry']
    scan_js_header_flow(code, flow)
    return flow


def classify_js_header_arg(code, body, e):
    e = e.strip()
    m = re.fullmatch(r'(.+?)\?(.+):(.+)', e)
    if m:
        a, b = classify_js_header_arg(code, body, m.group(2)), classify_js_header_arg(code, body, m.group(3))
        for k in ('unknown', 'alias'):
            for x in (a, b):
                if x[0] == k:
                    return x
        return a if a[0] == 'copy' else b
    k, src = classify_js(e)
    if k == 'alias' and src not in ('input_header', 'join_header'):
        kinds = []
        for m in re.finditer(r'(?:let|var|const)?\s*%s\s*=\s*([^;]+);' % re.escape(src), body):
            rhs = m.group(1).strip()
            mc = re.match(r'(?:await\s+)?(%s)\(' % JS_ID, rhs)
            if mc:
                fm = re.search(r'function %s\([^)]*\) \{(.*?)\n\}' % mc.group(1), code, re.S)
                if not fm:
                    kinds.append(('unknown', rhs[:40]))
                    continue
                fb = fm.group(1)
                ok = True
                for r in re.finditer(r'return\s+([^;]+);', fb):
                    rv = r.group(1).strip()
                    if rv == 'null':
                        continue
                    if re.fullmatch(JS_ID, rv) and re.search(r'(?:let|var|const)\s+%s\s*=\s*\[' % re.escape(rv), fb):
                        continue
                    ok = False
                kinds.append(('fresh', '') if ok else ('unknown', mc.group(1)))
            else:
                kinds.append(classify_js_header_arg(code, body, rhs))
        if not kinds:
            return ('unknown', src)
        for kk in ('unknown', 'alias'):
            for x in kinds:
                if x[0] == kk:
                    return x
        return kinds[0]
    return (k, src)


def scan_js_header_flow(code, flow):
    m = re.search(r'async function shallow_parse_input_query\(([^)]*)\) \{(.*?)\n\}', code, re.S)
    found = False
    if m:
        body = m.group(2)
        for c in re.finditer(r'\.set_header\(([^;]*)\);', body):
            found = True
            k, src = classify_js_header_arg(code, body, c.group(1))
            flow.bind('writer_header', k if k in ('alias', 'copy', 'fresh') else 'unknown', src)
    if not found:
        flow.bind('writer_header', 'unknown', 'no set_header call found in shallow_parse_input_query')
    flow.write('writer_header')


def lean_str(s):
    return '"' + s.replace('\\', '\\\\').replace('"', '\\"').replace('\n', ' ') + '"'


def flow_to_lean(name, flow):
    binds = ', '.join('(%s, .%s, %s)' % (lean_str(x), k, lean_str(y)) for x, k, y in flow.binds)
    inputs = INPUTS + (['?'] if any(y == '?' for _x, _k, y in flow.binds) or '?' in flow.mutated else [])
    return ('def %s : RowFlow :=\n  { inputs := [%s],\n    binds := [%s],\n    mutated := [%s],\n    written := [%s] }\n'
            % (name, ', '.join(lean_str(i) for i in inputs), binds, ', '.join(lean_str(x) for x in flow.mutated), ', '.join(lean_str(x) for x in flow.written)))


def to_lean(py_flow, js_flow):
    return ('-- GENERATED on every check run by tools/row_flow_scan.py from rbql-py/rbql/rbql_engine.py and rbql-js/rbql.js; do not edit.\n'
            'import Rbql.Model.RowFlow\nnamespace Rbql.Generated\n\n'
            '/-- row flow of rbql_engine.py (main-loop templates, writers, select_except, select_unnested) -/\n' + flow_to_lean('pyRowFlow', py_flow) +
            '\n/-- row flow of rbql.js -/\n' + flow_to_lean('jsRowFlow', js_flow) + '\nend Rbql.Generated\n')


def may_input(flow):
    s = set(INPUTS) | ({'?'} if any(y == '?' for _x, _k, y in flow.binds) else set())
    changed = True
    while changed:
        changed = False
        for x, k, y in flow.binds:
            if k == 'alias' and y in s and x not in s:
                s.add(x)
                changed = True
    return s


def problems(flow):
    s = may_input(flow)
    return [('mutated', x) for x in flow.mutated if x in s or x == '?'] + [('written', x) for x in flow.written if x in s]


if __name__ == '__main__':
    repo = sys.argv[1] if len(sys.argv) > 1 else '/repo'
    pf = scan_python(os.path.join(repo, 'rbql-py', 'rbql', 'rbql_engine.py'), os.path.join(repo, 'rbql-py'))
    jf = scan_js(os.path.join(repo, 'rbql-js', 'rbql.js'))
    print(to_lean(pf, jf))
    print('-- python problems:', problems(pf), pf.notes)
    print('-- js problems:', problems(jf), jf.notes)
