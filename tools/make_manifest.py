#!/usr/bin/env python3
"""Writes /verif/MANIFEST.json from the table below (kept in one place so it stays valid)."""
import json
import os

ROOT = os.path.dirname(os.path.dirname(os.path.abspath(__file__)))

TECH = 'Lean 4 theorems about a hand-written executable model + model/implementation correspondence run (differential) on every invocation'

CLAIMED = {
    'C11': dict(
        text='smartSplit (Lean) is proved sound and complete w.r.t. a declarative grammar of the quoting dialect for every line and delimiter; '
             'the real split functions of csv_utils.py and csv_utils.js are tied to it by exhaustive short lines over the class alphabet plus random Unicode lines.',
        note='Trusted: Lean kernel, axioms {propext, Classical.choice, Quot.sound}; the model/regex equality is established by the correspondence only (Python re / JS RegExp trusted).',
        ref='DESIGN.md section 7, C11'),
}

CLAIMED.update({
    'C12': dict(
        text='C12_records_are_the_split_lines / C12_rfc_records_are_the_assembled_lines (WHAT the reader returns, for every chunking: the physical lines of the text, BOM removed from the first, comment lines dropped, each split by the policy; header; exactly the BOM / first-defective-line / field-count warnings), C12_bom_seen_iff; theorems C12_rows_chunk_independent and C12_records_chunk_independent (header, records, warnings, error through comment skipping, RFC assembly and header logic depend only on the content): for EVERY partition of a text into non-empty pieces and every chunk size >= 1 the Python reader model returns the lines of the whole text '
             '(LF/CR/CRLF, CRLF across reads = one break, unterminated last line, BOM dropped); proved by invariant + induction, no size bound. The real CSVRecordIterator is tied to the model '
             'by running it over ALL partitions x ALL chunk sizes of every short text (and byte partitions of multi-byte samples) and comparing records, header and warnings.',
        note='Trusted: Lean kernel + standard axioms; TextIOWrapper decoding/universal newlines are modelled (CR/CRLF -> LF), tied dynamically; a read returns "" only at EOF.',
        ref='DESIGN.md section 7, C12'),
    'C01': dict(
        text='Master theorem run_select_eq_spec / C01_select_where_exact: for ALL tables and ALL programs (every expression an arbitrary function of the record) the engine model outputs exactly '
             'the concatenation, in input order, of what each joined record contributes (nothing if WHERE is falsy, one record per UNNEST element, otherwise its projection), by a bridge theorem main-loop <-> '
             'emissions and a chain-algebra theorem. The real rbql.query is tied on every <=2x2 table over {None,"",x,"x;y"} x a battery of item-kind combinations plus seeded random cases, including error outcomes; the cases lying in the common Python/JS class are also run on the REAL rbql-js engine.',
        note='Trusted: Lean kernel + standard axioms; evaluation of user expressions by CPython (opaque functions in the theorems); the model/engine tie is the correspondence.',
        ref='DESIGN.md section 7, C01'),
    'C02': dict(
        text='C02_host_can_order_keys (the host language raises TypeError on None / mixed-type sort keys: Spec/Comparable.lean models exactly which keys it can order, the driver answers with runChecked, about a hundred TypeError outcomes per run agree with Python); C02_sort_dedup_truncate: for every chain shape the engine model outputs take-n(dedup(stable-sort(emissions))); C02_bound_is_take; first-occurrence and multiplicity lemmas; writer protocol. '
             'Real engine tied on tie-heavy tables x all clause combinations with the pulled-record count observed, plus metamorphic oracles (bound = prefix, DESC = reverse) and a never-ending iterator; common-class cases also on the real rbql-js engine.',
        note='Hypotheses: comparable ORDER BY keys, hashable DISTINCT rows, no failing evaluation for the unbounded query. Stable-sort properties and the early-stop (tail irrelevance) theorem are in Proofs/OrderAndStop.lean when present.',
        ref='DESIGN.md section 7, C02'),
    'C04': dict(
        text='C04_lookup_eq_filter: the hash-join map equals filtering B by key (B order, record numbers, null-record width) for ALL tables and key lists; expansion lemmas for INNER/LEFT/STRICT; '
             'downstream clauses and UPDATE see the expansion (run = spec over expandRecord). Real engine tied on duplicate-key / empty / ragged table pairs x five join keywords x 1..3 key pairs incl. NR/bNR, headered tables with EMPTY / partner-less join tables (null record as wide as the join header, C04_null_width; defect D18 fixed); common-class cases also on the real rbql-js engine.',
        note='Trusted: Lean kernel + standard axioms; Python == on keys modelled as structural equality of values.',
        ref='DESIGN.md section 7, C04'),
    'C05': dict(
        text='C05_update_refines_spec (run = updateSpec incl. the error reported), same length/order/width, unchanged when WHERE false or no partner, only assigned fields change, right-hand sides see the original '
             'record (simultaneous assignment; swap), NU counts updated records, missing field names the record. KNOWN FINDING D14: UPDATE ... LEFT JOIN updates partner-less records (counterexample theorem; pinned witness). Common-class cases also on the real rbql-js engine.',
        note='Trusted: Lean kernel + standard axioms. The property is false of the code for LEFT JOIN (D14, recorded in known_findings.json, not repaired).',
        ref='DESIGN.md section 7, C05'),
    'C14': dict(
        text='C14_first_offending_record / C14_emissions_first_failure: the error reported is that of the FIRST record (A-major, B order) whose JOIN key, WHERE, select list or ORDER BY evaluation fails, carrying its number and field; '
             'UPDATE first error with the exact prefix written; join-build error before any write; field-count and None warnings iff; reader warnings on the Python reader machine: BOM flag iff the first physical line starts with the configured BOM (C14_bom_flag_iff_first_line_has_bom), defective-line warning names the first line on which the splitter warned and only such a line (C14_defective_line_iff), quoted_rfc malformed record is an error iff the splitter warned on it (C14_rfc_malformed_is_io_error). Real code tied with a poisoned record at every position x every clause, static-error battery '
             '(no write before a parsing error), CSV anomaly files.',
        note='Trusted: Lean kernel + standard axioms; host exception texts are classified, not modelled; parsing errors detected from the query text are checked on the implementation directly (no parser model yet).',
        ref='DESIGN.md section 7, C14'),
    'C03': dict(
        text='C03_result_characterised (no error; strictly ascending duplicate-free key list = the keys that occur; each column the fold of its accumulator), C03_median_is_middle_of_sorted, C03_variance_nonneg, C03_host_can_order_keys (run is the real engine exactly when the group keys are mutually comparable; otherwise Python raises TypeError: modelled as runChecked and tied); C03_one_row_per_key_sorted (run = aggRowsSpec: one row per distinct key among passing records, ascending, TOP applied) by a bridge theorem for the aggregate branch of the main loop; every accumulator '
             'proved equal to the mathematical aggregate of its group in input order (COUNT, SUM, MIN/MAX as true extrema, AVG, population VARIANCE = mean squared deviation, MEDIAN, ARRAY_AGG order, ANY_VALUE first), '
             'non-constant column fails iff two distinct values incl. None, builtin dispatch decision table. Real engine tied on grouped numeric tables with exact rational comparison, plus a direct check of min/max/sum dispatch; numeric pools around zero (zero / negative / tiny) and the common-class cases also on the real rbql-js engine.',
        note='Hypotheses: homogeneous numeric arguments (numeric strings of -?d+(.d+)? or numbers), comparable keys; IEEE rounding outside the model (values recovered as exact rationals).',
        ref='DESIGN.md section 7, C03'),
    'C15': dict(
        text='C15_run_on_broken_pipe / C15_run_stops_promptly / C15_run_update_on_broken_pipe (at the level of run: no error, exactly the first k-1 records accepted, no write after the refusal, finish once, and for streaming shapes at most the records needed are READ); C15_invalid_utf8_rejected_any_chunking, C15_truncated_utf8_rejected, C15_bad_byte_rejected (a byte-level model of the streaming UTF-8 decoder rbql-js uses, tied to node TextDecoder); C15_prefix_on_broken_pipe: a writer refusing at its k-th write has accepted exactly the first k-1 records of the full output, for every chain shape; C15_writer_protocol (finish once, no write after refusal), '
             'C15_chain_is_one_feed; C15_fds_closed for EVERY fault point of the query_csv resource machine. Real code tied with a recording writer refusing at every k, a stream raising BrokenPipeError at every write, '
             'an invalid byte at every position x chunk sizes (Python), invalid / truncated UTF-8 x every position x every partition x bulk (rbql-js), /proc/self/fd before/after 14 fault scenarios.',
        note='Partial: OS pipe semantics, TextIOWrapper buffering and the GC are outside the model; the resource machine is a hand abstraction of query_csv tied by the descriptor check; the Python decode-error-to-IO-error clause is checked on the implementation only (TextIOWrapper decodes); the JS one is modelled (Model/Utf8.lean).',
        ref='DESIGN.md section 7, C15'),
    'C19': dict(
        text='The reference semantics (Lean run) is proved equal to the specification layer for SELECT, aggregates and UPDATE (C19_reference_*); the REAL rbql-js engine is tied to it through a node batch driver on language-neutral '
             'queries rendered in JS syntax (rows, error class/record/field, pulled records, writer calls, warnings), with the caller arrays snapshotted before/after and output rows checked not to alias input rows.',
        note='Partial by nature: the JS engine itself is not modelled; it is tied to a proved reference (translation-validation-like). Strings restricted to BMP; only expressions that mean the same in both languages.',
        ref='DESIGN.md section 7, C19'),
    'C06': dict(
        text='C06_sqlite_statement_shape (for EVERY table name: either nothing is executed or exactly SELECT * FROM <[A-Za-z0-9_]*[LF]?>;), C06_cleanup_has_no_linefeed + C06_query_text_ident_clean (an identifier cut from query text that passes the whitelist is purely '
             '[A-Za-z0-9_]*), C06_outputs_fresh / C06_no_source_mutation over the classified allocation and mutation points. The observation is the property: deep id()+content snapshots of input/join lists around every query kind (incl. failing), '
             'rbql-js array snapshots and identity, DataFrame.equals+dtypes, sha256 of sqlite and CSV files, 40 hostile identifiers traced at the sqlite connection.',
        note='Partial: the row-flow translator classifies expressions syntactically (alias / copy / fresh) and is trusted; nested mutable cell values, pandas, sqlite3 and the OS open mode are outside the flow model; the snapshots tie them.',
        technique='Lean 4 theorems (soundness of a may-alias check over a heap machine) + source-derived (regenerated) row-flow obligation + identity/content snapshots (differential) on every invocation',
        ref='DESIGN.md section 7, C06'),
    'C07': dict(
        text='C07_header_width (+ DISTINCT COUNT, EXCEPT variants): whenever a header is produced it has as many names as every record has fields, for every list of column infos; C07_names (alias / source column / identifier / colK by output position), '
             'no header without alias, star+alias without header rejected. The real engine is tied by select lists generated from item kinds (nested brackets, commas in calls and literals, AS/as) x header x join x DISTINCT/COUNT/TOP/GROUP BY/EXCEPT, '
             'observed through query_table, query_csv (whose writer enforces the width) and pandas.',
        note='Partial: how an item TEXT is classified into its kind is Python ast / the JS span parser — tied by the correspondence, not modelled. Hypothesis RectangularSources (records as wide as their headers).',
        ref='DESIGN.md section 7, C07'),
    'C08': dict(
        text='Tier 1: C08_literals_extracted + C08_literal_contents_opaque(_for_the_parse) (a well-formed quoted string IS cut out and its contents never reach the rest of the parser: replacing literal contents leaves the format expression and the parse unchanged), C08_literals_reassemble / C08_literals_roundtrip (literals cut out and put back verbatim for every query without the marker text; counterexample theorem for the marker); tier 2: C08_keyword_case (keyword location depends only on the '
             'lower-cased text), blank/comment lines, indentation, trailing semicolons, join synonyms, C08_on_clause_spelling (= vs ==, spacing, case of on/and), C08_redundant_from_a / C08_redundant_update_a, C08_keyword_case_and_clause_order (case of every keyword through the whole of separate_actions); tier 3: C08_clause_order (ANY permutation of the clauses after SELECT/UPDATE parses to the same dictionary of actions and the same error, for all quiet clause bodies, at most one clause per statement group) and C08_clause_actions (the action of a clause depends only on its statement and body). The shallow parser functions (literal scanner = the real regex on ALL strings <= 8-10 over {quote,dquote,backslash,a}, cleanup, redundant table name, '
             'separate_actions, join expression, whole pipeline) are tied to the Lean Parse model, and respelled queries (case, clause order, layout, synonyms, hostile literal contents composed from keyword/metacharacter sequences) are run through the real Python AND rbql-js engines against the model result of the abstract query; the rbql.js twins of separate_actions / parse_join_expression (spaces-only strip, SET without trailing space, &&, assertion for SELECT+UPDATE) are modelled in Model/ParseJs.lean and tied on the same texts.',
        note='Hypothesis of tier 3: no space-separated token of a clause body starts (case-insensitively) with a reserved word (sufficient, not necessary; literals are cut out before this stage). The scanners replacing the regular expressions are tied to Python re, not proved equal to it.',
        ref='DESIGN.md section 7, C08'),
    'C09': dict(
        text='C09_escape_unescape: for EVERY column name and both quote characters the generated literal evaluates back to the name (Python literal evaluation modelled for exactly the escapes RBQL can produce, tied to ast.literal_eval); '
             'C09_binds_right_column for every set of distinct names; header-line theorems for the reader (Proofs/HeaderLine.lean when present). The real engine is checked directly: hostile headers x every position x '
             'a["..."], a[\'...\'], repr, a.name, bare name x list/CSV/pandas/sqlite; header flag x WITH modifier x input/join.',
        note='Partial: the regex-driven variable discovery (parse_dictionary_variables / parse_attribute_variables) is exercised, not modelled; names with an a.ident/b.ident token excluded (acknowledged limitation).',
        ref='DESIGN.md section 7, C09'),
    'C13': dict(
        text='C13_csv_frontend_faithful_quoted / _simple (a table written by the CSV writer and read back by the reader MACHINE in any chunking, LF/CRLF/CR, is the table, header first, no warning but the field-count warning of a ragged table: query_csv sees what query_table is given); C13_engine_depends_on_records_only, C13_frontends_agree (any two faithful adapters), C13_csv_adapter_faithful_line/file (C10 + C12 composed), C13_cli_outcome (decision table of the command line). '
             'The REAL entry points — query_table, query with user iterator/writer, query_csv, python -m rbql (file and stdin/stdout; out-format input/csv/tsv), pandas, sqlite + query_sqlite_to_csv — are run on the same '
             'queries and data (incl. JOIN with the join table as list / CSV file / DataFrame / sqlite table, sqlite tables with generated columns) and compared; CLI exit status / stdout / stderr discipline on success, warnings and four error classes. The rbql-js entry points (query_table, query_csv streamed and bulk_read, cli_rbql.js on files and on stdin/stdout) are compared in the same way, with column names that need quoting.',
        note='Partial: pandas, sqlite3, argparse and the process boundary are third-party adapters assumed faithful in the theorem and tied only dynamically.',
        ref='DESIGN.md section 7, C13'),
    'C16': dict(
        text='C16_interleaving_independent (for EVERY schedule two machines with disjoint state end where each ends alone), qSteps_eq_mainLoop (the small-step machine cut at every record pull computes run), '
             'C16_interleaved_queries_equal_solo, C16_history_independent, and the GENERATED obligation C16_no_shared_writes re-derived from rbql_engine.py on every run by an ast-based translator (shared-state footprint of everything reachable '
             'from query(), code templates included). Real code tied by a cooperative scheduler running ALL interleavings of the get_record/write/finish steps of pairs of queries and ALL short query sequences against fresh-interpreter runs.',
        note='Partial: the theorem is about disjointly-typed state machines; preemptive thread switches inside a step and C-level races are not expressible. If the generated obligation breaks and no interleaving/history differs the check reports no-failing-input-found.',
        technique='Lean 4 theorems + source-derived (regenerated) proof obligation + exhaustive schedule enumeration under a cooperative scheduler',
        ref='DESIGN.md section 7, C16'),
    'C10': dict(
        text='Line level: C10_line_roundtrip_quoted (every good delimiter, single- or multi-character; no field condition for one-character delimiters), simple and monocolumn round trips; '
             'whitespace (C10_line_roundtrip_whitespace, C10_whitespace_tokens_spec) and quoted_rfc (C10_line_roundtrip_rfc, parity C10_rfc_written_quote_parity) line round trips; '
             'file level: C10_file_lines_roundtrip for LF/CRLF/CR and C10_rfc_file_roundtrip (the real chunked reader machine with quote-parity assembly of multi-line records, any chunking); lossy output warns (C10_lossy_simple_warns, C10_none_sets_flag); C10_overlap_counterexample shows why multi-character '
             'delimiters need the overlap hypothesis. The real writer+reader pair (py and js) is tied to the model on written text, read-back records and all warnings, and checked against an '
             'independent representability oracle.',
        note='Proved for all four policies at line level and, for quoted_rfc, through the Python reader machine at file level (CR inside a quoted field is normalised to LF by text-mode reading: stated, not hidden). Partial: the JS writer/reader pair is tied by the correspondence and C18 agreement theorems; codecs trusted.',
        ref='DESIGN.md section 7, C10'),
    'C17': dict(
        text='Theorem C17_like_correct: the token/regex machine produced by like_to_regex matches exactly the SQL LIKE specification for every pattern and every single-line text '
             '(both Python and JS `.`/`$` semantics); C17_metachars_literal; the real engines are tied by exhaustive short pairs over the 14-symbol alphabet through `select like(a1,a2)`.',
        note='Trusted: Lean kernel + standard axioms; re.escape/re.compile and JS RegExp implement literal matching (tied dynamically).',
        ref='DESIGN.md section 7, C17'),
    'C18': dict(
        text='One Lean dialect serves both ports: C18_quote_agree / C18_rfc_quote_agree (Python two-step and JS single-condition quoting coincide), C18_readers_same_lines (pull reader and push reader '
             'see the same physical lines of any file however chunked). Both implementations are run on every case against the one model and against each other.',
        note='C18_readers_agree(_any_chunking): record-level agreement of the two reader machines is proved (hypothesis CommentOK: no LF-after-odd-quotes comment prefix under quoted_rfc). Header derivation from a select list and the shared splitter are tied by the correspondence (one Lean function models both ports).',
        ref='DESIGN.md section 7, C18'),
    'C20': dict(
        text='BYTE level: C20_stream_eq_bulk_bytes / C20_result_depends_on_bytes_only (byte chunks -> streaming UTF-8 decoder -> stream reader = bulk reader on the decoded text, for every chunking without empty chunks; chunk boundaries inside a multi-byte character are invisible), C20_valid_utf8_never_rejected, C20_decoder_accepts_exactly_utf8 (against core Lean String.utf8EncodeChar), C20_decoded_pieces_are_good (the decoded pieces satisfy GoodPieces). TEXT level: C20_lines_chunk_independent and C20_stream_eq_bulk: for EVERY partition of the decoded text the JS stream reader model processes the lines of the whole text and ends in the '
             'same state as the bulk reader (records, warnings, error). The real rbql-js reader is tied by running it over ALL byte partitions of every short input, multi-byte samples and 64KiB-crossing files; the decoder model is tied to the TextDecoder of node (as rbql_csv.js calls it) on every partition of every byte string of length <= 3 (4) over 27 boundary bytes, and the composed byte-chunk reader on damaged / truncated multi-byte CSV texts.',
        note='Trusted: Lean kernel + standard axioms. util.TextDecoder is no longer assumed correct but MODELLED (Model/Utf8.lean) and tied; assumption left: a Readable never emits a zero-length chunk (C20_empty_byte_chunk_counterexample shows why).',
        ref='DESIGN.md section 7, C20'),
})

NOT_YET = {}


# additions of the later rounds: prepended to the claim text of the property
ADDENDA = {
    'C01': 'TEXT-TO-CODE (Model/Translate.lean, tied to translate_select_expression of both ports on every string of length <= 5 over {a . * , space} and on token sequences): '
           'C01_star_items_translate_in_place(_js): a select list with `*`, `a.*`, `b.*` at ANY positions, any padding, any number, is rewritten to the canonical list expression; '
           'C01_select_list_segments: that expression is `[run1] + V1 + [run2] ...`, the concatenation in item order of the plain runs and the star variables; C01_count_star_is_count_one; C01_empty_select_rejected; '
           'counterexample theorems for the known limitations (`f(a1, *, a2)`, a final line feed). ',
    'C05': 'TEXT-TO-CODE: C05_update_pairs_exact: an assignment list `v1 = r1, v2 = r2, ...` (targets a[.#a-zA-Z0-9[]_]*, right-hand sides in which the assignment scanner finds nothing) is cut into exactly the pairs (vi, strip ri), '
           'in order; C05_translate_update_indices / _first_unknown (indices through the variable map; the FIRST unknown target is reported); C05_update_must_start_with_assignment; C05_kwarg_counterexample (`f(a2, a3 = 1)` is split: the documented limitation). '
           'Tied to translate_update_expression of both ports (exhaustive short strings + token sequences). Tables with SHARED row objects (the same list several times, the table as its own join table) on both ports. ',
    'C06': 'ALSO INPUTS: the lists of column names (D27 fixed; the row-flow translator follows the header handed to the writer), rbql-js arrays with undefined cells and holes (structural snapshot), the input file of real INTERACTIVE command-line sessions, source files named like scratch files of the output (<output>.tmp …). '
           'ROW FLOW, regenerated from the source on every run (tools/row_flow_scan.py -> Generated/RowFlow.lean: every binding of a row variable in the main-loop templates, select_simple / select_unnested / select_except and the five chain writers of rbql_engine.py and rbql.js, '
           'classified alias / copy / fresh, every in-place mutation, every row handed to a writer; the select / update / except expression texts come from the real shallow_parse_input_query / translate_* functions): generated obligation C06_generated_row_flows_pass_check '
           '(decide +kernel), whose meaning is C06_row_flow_sound: a heap machine in which rows are references; if the may-alias check passes then NO program made of the flow\'s statements, in any order and number, modifies an object of the caller\'s tables or hands one to a writer; '
           'C06_row_flow_check_monotone (deleting statements cannot break it); counterexample theorems (UPDATE without the copy; out_fields aliasing the record) exhibit the mutated / leaked input object. D21 (CSV writers normalised nested lists of the input table in place) found and fixed. ',
    'C07': 'THE TWO ROUTES AGREE KIND BY KIND: C07_py_js_agree_by_kind (pyColumnInfo of the parse tree = colInfoOfSpan of the text for aN, a[N], a.name, identifiers, star markers, a["name"], expr AS name), C07_py_kinds, C07_py_walk_first_three, C07_py_js_placeholder_name_differs (the one real difference). '
           'PYTHON AST ROUTE MODELLED (Model/PyAst.lean: column_info_from_node, the breadth-first alias search, the Tuple / error-code logic, over the tree the REAL parser builds; C07_py_one_info_per_item, C07_py_simple_roots_are_not_aliases, C07_py_alias_decided_by_first_call, C07_py_alias_search_is_breadth_first). '
           'TEXT-TO-COLUMN-INFO (the rbql-js header parser is modelled in Model/Translate.lean and tied on every string of length <= 5 over {a 1 [ ] ( , space}; the Python ast route is compared with it on generated select lists): '
           'C07_root_spans_exact (one span per item for bracket-balanced items without a top-level comma; (rootSpans s).isOk = Balanced s), C07_span_kinds (aN, a[N], a.name, bare identifiers, star markers, a[literal], `expr AS name` for EVERY expr), '
           'C07_span_info_sound (inversion: a non-null info correctly names its column - the guarantee stated in the source comment), C07_unquote_escaped_full (unquote_string undoes js_string_escape_column_name for EVERY name, after the repair D20), '
           'C07_text_to_header_width / C07_text_header_matches_records: the hypothesis `aligned items infos` of C07_header_matches_records is DISCHARGED from the item texts for the JS port. Defects D19 (tuple item, Python) and D20 (control-character escapes, JS) found by these proofs/ties and fixed. ',
    'C09': 'PASS ORDER PROVED IRRELEVANT: C09_csv_pass_order_irrelevant (the CSV adapters run the attribute pass before the dictionary pass: every variable is bound to the same column as in the table order, and one order fails iff the other does), C09_adapters_agree_on_bindings, '
           'C09_positional_variables_survive_named_passes / C09_array_variables_survive_named_passes (with the direct-mode counterexample). ADAPTERS: get_variables_map of the REAL pandas, CSV (py and js) and sqlite iterators tied to Model/Variables.lean iteratorVariablesMap (which passes run, in which order, under which condition). NAMED variables of both tables in the header-flag x WITH-modifier matrix. '
           'VARIABLE BINDING on the real algorithms (Model/Variables.lean: parse_dictionary_variables, parse_attribute_variables, map_variables_directly, ensure_no_ambiguous_variables, generate_init_statements; tied to both ports): '
           'C09_dict_no_false_negative (the "probably has" heuristic never misses a referenced column: every name segment survives the escaping), C09_dict_variable_binds_position, C09_attribute_variable_binds_position, C09_attribute_unknown_column_fails, '
           'C09_attr_duplicate_names_diverge (Python last / rbql.js first column of a duplicated name), C09_init_assignments_cover, C09_direct_variable_bound, C09_ambiguous_detected. VARIABLE DISCOVERY: C09_basic_vars_iff: n is reported by parse_basic_variables (model) IFF `a<n>` occurs delimited by non-word characters (sound AND complete); C09_array_vars_sound / _complete (with the counterexample `a[1]a[2]`); C09_var_not_inside_identifier. Tied to both ports. ',
    'C03': 'NUMERIC STRINGS ARE MODELLED (Model/Number.lean: Python int() then float() grammar as NumHandler.parse applies them, JavaScript Number() as rbql.js parse_number does) and tied string by string '
           '(every string of length <= 4 over a 14-character alphabet, boundary words, sequences through one handler) to the real NumHandler.parse and the real rbql.js parse_number; '
           'C03_int_literal_is_float_literal / C03_numhandler_mode_irrelevant / C03_numhandler_history_irrelevant (what a string denotes does not depend on the handler state), '
           'C03_plain_integer_value / C03_plain_decimal_value / C03_py_js_agree_on_plain_decimals, C03_blanks_ignored, counterexample theorems for every real difference between the ports. ',
    'C04': 'TEXT-TO-KEYS (Model/JoinResolve.lean, tied to resolve_join_variables of both ports): C04_on_pair_resolves, C04_on_sides_symmetric (b… == a… resolves like a… == b…), C04_record_number_keys_resolve, '
           'C04_record_numbers_swapped_counterexample (`bNR == NR` is refused), C04_ambiguous_key_refused, C04_resolved_key_lists_have_equal_length (one entry per pair, in order: the join well-formedness hypothesis of the rbql.js refinement holds for every parsed query). ',
    'C08': 'JAVASCRIPT PORT: the rbql.js literal scanner is modelled (separateLiteralsJs) and tied on every string of length <= 7 over {\' " \\ a `}; C08_js_literals_reassemble, C08_js_literal_closes_after_escaped_backslash (regression theorem of defect D23, fixed: '
           '`\'a\\\\\' where …` swallowed the next clause), C08_js_literals_extracted, C08_js_literal_contents_opaque(_for_the_parse), C08_js_agrees_with_python_on_common_literals, counterexamples for every side condition and for the real differences (back-ticks, line feeds, triple quotes). ',
    'C13': 'USER INIT CODE through query_table, query_csv (explicit and ~/.rbql_init_source.py) and the command line (--init-source-file and the default file). JOIN TABLE NAMES: find_table_path modelled over an abstract file system (Model/TablePath.lean; C13_table_path_exists, C13_table_path_is_a_candidate, C13_table_path_prefers_the_name_itself) and tied to the real function over real directory trees. '
           'FRONT DOOR OF THE COMMAND LINE modelled (Model/Cli.lean cliDoor: --version / --color / --output / --policy / --delim / --query) and tied on all 800 combinations to the real process '
           '(refusals = Error [generic] on stderr, exit 1, empty stdout; a run = byte for byte what query_csv writes for the dialect the model names): C13_cli_runs_iff, C13_cli_noninteractive_runs_or_refuses, C13_cli_run_dialect, C13_cli_monocolumn_needs_no_delim. '
           'ENCODINGS ON THE COMMAND LINE: non-ASCII tables under --encoding utf-8 / latin-1 x PYTHONIOENCODING x {file->file, file->stdout, stdin->stdout}: the bytes written are the query_table result in the requested encoding; LONE-STAR JOIN battery through every entry point. '
           'COMMAND LINE: which dialects `python -m rbql` hands to query_csv is modelled (Model/Cli.lean: cliDialects) and tied to the REAL run_with_python_csv (query_csv replaced by a recorder) for 25 delimiter spellings x {no policy, 5 policies} x {input, csv, tsv}: '
           'C13_cli_out_format_input (output dialect = input dialect), C13_cli_out_format_named, C13_cli_default_policy, C13_cli_delim_spelling. ',
    'C16': 'SHARED STATE made explicit: machines over module-level state g (steps may READ it); C16_frame_implies_independence: if no step writes g (the frame condition the regenerated footprint supports) every schedule gives the solo results; '
           'C16_shared_write_counterexample / _history_counterexample: a step that records a decision in shared state (the shape of the seeded shared NumHandler) makes results depend on schedule and on history. '
           'FOOTPRINT: the scanner follows aliases, elements of shallow copies, parameters and return values (taint), memoising decorators and function attributes, and also covers the front-end modules '
           '(C16_frontends_no_shared_writes: rbql_csv / rbql_pandas / rbql_sqlite / rbql_main); histories include FROM queries (input from the registry) and all sequences of <= 3 (4) query_csv calls in which one relative join-table name denotes different files; SHARED OBJECTS: all sequences of <= 2 (3) queries over the same table objects and one registry object; all sequences of <= 3 (4) queries over ONE sqlite connection; the adapter modules store to no attribute of an object the caller handed over (generated). ',
    'C20': 'CONSUMER INDEPENDENCE: every multi-chunk stream is read twice by the real rbql-js reader — get_all_records from a synchronous source, and a consumer that yields to the event loop from an asynchronous source — both must equal the model. ',
    'C02': 'CSV SINK: DISTINCT / ORDER BY / TOP queries with number, None and quote-needing cells through query_csv against query_table (the CSV writer renders the record it is handed; that must not leak into what the stages remember). ',
    'C15': 'OUTPUT PATH THAT IS A PIPE (FIFO whose reader is gone; D29 fixed): 28 scenarios; every file-descriptor scenario also pins the error CLASS the query ends in (a failure while winding up must not replace the error that stopped the query). STDOUT AS A REAL PIPE: query_csv writing to a pipe whose reader is gone (results of 0 / 1 / 20 / 30000 records, so the break happens at the final flush or inside the loop) must return and leave no descriptor it opened behind (/proc/self/fd). ',
    'C14': 'TEXT-DETECTABLE MISTAKES are reported whatever the data: every static error also over an empty table and with a WHERE that rejects everything. BOM END TO END: query_csv on files through the real decoders of both ports: the BOM warning appears iff the input / join table bytes begin with EF BB BF (utf-8 and latin-1, every policy, with and without header) and the mark never reaches the output. ',
    'C19': 'THE rbql.js ENGINE IS NOW MODELLED where it differs from the reference (Model/EngineJs.lean: JSON.stringify-keyed Set/Map for DISTINCT, stable_compare over keys+NR then reverse, compare_key_arrays of decoded group keys, JSON text of multi-column join keys, TopWriter ignoring its sub-writer); '
           'the JS legs of C01-C07 and C19 are answered by runJs, cross-checked against the reference on every case. C19_json_identifies_all_records (JSON.stringify is injective on the value model, incl. jsNumRepr on all of Q), '
           'C19_js_order_by_is_reference_order, C19_js_group_order_is_reference_order, C19_js_compare_agrees_on_uniform_keys (numbers / BMP strings), C19_js_astral_order_counterexample (UTF-16 vs code-point order). ',
}


def main():
    props = [json.loads(l) for l in open(os.path.join(ROOT, 'properties.jsonl'))]
    checks = []
    na = []
    for p in props:
        pid = p['id']
        if pid in CLAIMED:
            c = CLAIMED[pid]
            checks.append({
                'property_id': pid,
                'quick_cmd': './check %s --tier quick' % pid,
                'thorough_cmd': './check %s --tier thorough' % pid,
                'evidence_file': 'evidence/%s.json' % pid,
                'replay_cmd_template': './check %s --replay {path}' % pid,
                'engine': 'lean-model+correspondence',
                'level_claimed': {'category': 'proof', 'text': ADDENDA.get(pid, '') + c['text'], 'design_ref': c['ref']},
                'level_note': c['note'],
                'technique': c.get('technique', TECH),
            })
        else:
            na.append({'property_id': pid, 'reason': NOT_YET.get(pid, 'check not built yet in this round; planned in DESIGN.md section 10 (no claim is made until the model, theorems and correspondence exist)')})
    m = {
        'version': 1,
        'setup_cmd': './check setup',
        'hooks': {
            'guard': 'RBQL_VERIF (unused: no instrumentation was added to /repo; every observation point is public API)',
            'enable': 'not needed; checks import /repo/rbql-py via PYTHONPATH and require /repo/rbql-js/*.js by absolute path',
            'baseline_off_cmd': 'cd /repo && /venv/bin/python -m pytest -ra -q -p no:cacheprovider --timeout=900 --continue-on-collection-errors',
            'source_commits': [],
            'add_only': True,
        },
        'engines': [{
            'name': 'lean-model+correspondence',
            'path': 'lean/ (model, theorems, driver), harness/ (correspondence), check (entry point)',
            'serves_properties': sorted(CLAIMED),
            'kind_free_text': 'Lean 4.33 proofs about an executable model; compiled model driver vs real Python/JS code on generated cases',
        }],
        'checks': checks,
        'not_applicable': na,
        'notes': 'fix: commits in /repo are listed in known_findings.json; see DESIGN.md section 5.',
    }
    with open(os.path.join(ROOT, 'MANIFEST.json'), 'w') as f:
        json.dump(m, f, indent=1)
        f.write('\n')


if __name__ == '__main__':
    main()
