#!/usr/bin/env python3
"""Regenerate DESIGN.md section 7.0 (theorem names per property) from lean/Rbql/Theorems/*.lean."""
import re, pathlib
root = pathlib.Path(__file__).resolve().parent.parent
lines = []
for i in range(1, 21):
    pid = 'C%02d' % i
    names = []
    for f in sorted((root / 'lean' / 'Rbql' / 'Theorems').glob('*.lean')):
        names += re.findall(r'^theorem (%s_\w+)' % pid, f.read_text(), re.M)
    lines.append('* **%s** (%d): %s' % (pid, len(names), ', '.join('`%s`' % n for n in names)))
d = (root / 'DESIGN.md').read_text()
head = '### 7.0 As built'
a = d.index(head)
b = d.index('\n### C01', a)
first = d[a:d.index('\n', a)]
d = d[:a] + first + '\n\n' + '\n'.join(lines) + '\n' + d[b:]
(root / 'DESIGN.md').write_text(d)
print('\n'.join(l[:80] for l in lines))
