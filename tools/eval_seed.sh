#!/bin/bash
# eval_seed.sh <seed-name> <worktree> <property> <checks to run, e.g. "C02 C15">
# 1. confirm in the scratch worktree: demo FAILs with the change, PASSes without; pinned tests pass with the change
# 2. copy patch + demo to /verif/seeded/<name>/, 3. apply to /repo, run the given checks (quick), undo.
set -u
name=$1; wt=$2; prop=$3; checks=$4
demo=$(ls $wt/demo.py $wt/demo.js 2>/dev/null | head -1)
run_demo() { if [[ $demo == *.py ]]; then (cd $wt && /venv/bin/python -W ignore $demo >/tmp/demo_out.txt 2>&1); else (cd $wt && node $demo >/tmp/demo_out.txt 2>&1); fi; echo $?; }
cd $wt || exit 2
git diff --quiet -- rbql-py rbql-js && git apply patch.diff
echo "demo with change: exit $(run_demo) ($(tail -1 /tmp/demo_out.txt))"
echo "tests with change: $(cd $wt && PYTHONPATH=$wt/rbql-py /venv/bin/python -W ignore -m pytest -q -p no:cacheprovider test/test_rbql.py test/test_csv_utils.py test/test_mad_max.py test/test_rbql_pandas.py test/test_rbql_sqlite.py 2>&1 | tail -1)"
git apply -R patch.diff
echo "demo without change: exit $(run_demo) ($(tail -1 /tmp/demo_out.txt))"
git apply patch.diff
mkdir -p /verif/seeded/$name
cp $wt/patch.diff /verif/seeded/$name/patch.diff
cp $demo /verif/seeded/$name/
cd /repo && git apply --check /verif/seeded/$name/patch.diff || { echo "patch does not apply to /repo"; exit 2; }
git apply /verif/seeded/$name/patch.diff
echo "baseline suite with change: $(cd /repo && /venv/bin/python -m pytest -q -p no:cacheprovider --timeout=900 --continue-on-collection-errors 2>&1 | tail -1)"
cd /verif
for c in $checks; do
  out=$(./check $c 2>&1 | grep -E "VIOLATION|KNOWN|-> " | head -3 | tr '\n' ' ')
  echo "check $c: $out"
done
git -C /repo checkout -- .
rm -f /repo/output.csv /repo/test/python_column_infos.txt /repo/test/js_column_infos.txt
git -C /repo status --short | grep -v '^??' 
# evidence written while a seeded change was applied must never be committed: restore the committed files
git -C /verif checkout -- evidence 2>/dev/null
