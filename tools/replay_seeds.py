#!/usr/bin/env python3
"""replay_seeds.py [repo]: apply every stored seeded change (seeded/*/patch.diff) to the repository in turn, run the quick checks its meta.json names under
caught_by (first token of each entry), undo the change, and report which changes are NOT caught by any of them. Patches that no longer apply (the code they
touch was repaired since) are listed separately. Works on a scratch copy when VERIF_REPO points to one."""
import glob
import json
import os
import re
import subprocess
import sys

repo = sys.argv[1] if len(sys.argv) > 1 else os.environ.get('VERIF_REPO', '/repo')
root = os.path.dirname(os.path.dirname(os.path.abspath(__file__)))
missed, skipped, caught = [], [], 0
for meta_path in sorted(glob.glob(os.path.join(root, 'seeded', '*', 'meta.json'))):
    d = os.path.dirname(meta_path)
    name = os.path.basename(d)
    m = json.load(open(meta_path))
    patch = os.path.join(d, 'patch.diff')
    if subprocess.run(['git', '-C', repo, 'apply', '--check', patch], capture_output=True).returncode != 0:
        skipped.append(name)
        continue
    checks = []
    for c in m.get('caught_by', []):
        mm = re.match(r'(C\d\d)', c)
        if mm and mm.group(1) not in checks:
            checks.append(mm.group(1))
    if m['property'] not in checks:
        checks.append(m['property'])
    subprocess.run(['git', '-C', repo, 'apply', patch], check=True)
    hit = None
    try:
        for c in checks:
            r = subprocess.run([os.path.join(root, 'check'), c, '--tier', 'quick'], capture_output=True, text=True, env=dict(os.environ, VERIF_REPO=repo))
            if 'VIOLATION' in r.stdout:
                hit = c
                break
    finally:
        subprocess.run(['git', '-C', repo, 'checkout', '--', '.'], check=True)
    if hit:
        caught += 1
        print('caught  %-70s by %s' % (name, hit), flush=True)
    else:
        missed.append(name)
        print('MISSED  %-70s (ran %s)' % (name, ' '.join(checks)), flush=True)
print('SUMMARY caught=%d missed=%d patch-no-longer-applies=%d' % (caught, len(missed), len(skipped)))
print('MISSED:', missed)
print('SKIPPED:', skipped)
