#!/usr/bin/env python3
"""make_seed_tasks.py <round-dir> <Cxx> [<Cxx> ...]: one scratch worktree of /repo per property under <round-dir> (outside /repo and /verif),
each with a TASK.md for a fresh sub-agent: the property text, the kinds of change already studied (from seeded/*/meta.json), the deliverables.
The agent sees nothing of /verif."""
import glob
import json
import os
import subprocess
import sys

rd = sys.argv[1]
props = {json.loads(l)['id']: json.loads(l) for l in open('/verif/properties.jsonl')}
studied = {}
for d in sorted(glob.glob('/verif/seeded/*/meta.json')):
    m = json.load(open(d))
    studied.setdefault(m['property'], []).append(m['breaks'])
os.makedirs(rd, exist_ok=True)
for pid in sys.argv[2:]:
    wt = os.path.join(rd, pid)
    if not os.path.exists(wt):
        subprocess.run(['git', '-C', '/repo', 'worktree', 'add', '--detach', wt, 'HEAD'], check=True, stdout=subprocess.DEVNULL, stderr=subprocess.DEVNULL)
    p = props[pid]
    prev = '\n'.join('- ' + s for s in studied.get(pid, []))
    open(wt + '/TASK.md', 'w').write(f"""# Task

You are working in a scratch git worktree of the repository mechatroner/RBQL (Python package in `rbql-py/rbql/`, JavaScript
port in `rbql-js/`). This directory ({wt}) is yours; work only inside it. Do not read or write anything under /verif or /repo.

Below is a semantic property that RBQL is supposed to satisfy. Your job: produce ONE realistic change to the RBQL source
(the kind of slip a maintainer could make in a refactor, optimisation or bug fix) that BREAKS the property while

* the code still imports/compiles, and
* the existing test suite still passes with the change:
  `cd {wt} && PYTHONPATH={wt}/rbql-py /venv/bin/python -W ignore -m pytest -q -p no:cacheprovider test/test_rbql.py test/test_csv_utils.py test/test_mad_max.py test/test_rbql_pandas.py test/test_rbql_sqlite.py`
  (NOTE: plain `import rbql` in /venv resolves to an installed site-packages copy, not this tree; always set
  `PYTHONPATH={wt}/rbql-py` or `sys.path.insert(0, '{wt}/rbql-py')` and check `rbql.__file__`. For JavaScript, `require('{wt}/rbql-js/rbql.js')` etc. by absolute path; node is on PATH.)

The change must need something SPECIFIC to manifest — a particular multi-step sequence of operations, an unusual input, a
fault at a particular point, a particular chunking or interleaving, or (best) TWO COOPERATING SITES that each look fine alone, or the
INTERPLAY OF TWO FEATURES (two clauses, a clause and a front-end, a clause and an unusual value) that are each fine on their own.
Look for a mechanism that none of the changes listed below touched. It may be in the Python package or in the JavaScript port
(whichever the property covers), in any file.

These kinds of change have ALREADY been studied for this property; produce a change of a DIFFERENT kind, in a different mechanism:
{prev if prev else '- (none yet)'}

Deliverables, all in {wt}:

1. `patch.diff` — the change as a unified diff produced by `git diff -- rbql-py rbql-js > patch.diff` (source files only).
2. `demo.py` (or `demo.js`) — a small self-contained program that exits 0 when the property holds on its scenario and exits non-zero
   (printing what went wrong) when it is violated. It must FAIL with your change applied and PASS on the unchanged code. It must locate the
   code relative to its own location (e.g. `os.path.dirname(os.path.abspath(__file__)) + '/rbql-py'`), not via /repo.
3. `NOTES.md` — three or four lines: what the change is, why it breaks the property, what it needs in order to manifest.

Leave the worktree with the change APPLIED. Confirm yourself that (a) the demo fails with the change, (b) passes without it
(`git stash` / `git apply -R`), (c) the test command above passes with the change. Do not commit anything. Delete any file the test run generates (e.g. test/python_column_infos.txt).

# The property

id: {pid}
title: {p['title']}

statement: {p['statement']}

quantifier: {p['quantifier']}

anchors: {json.dumps(p['anchors'])}
""")
print('ok')
