#!/usr/bin/env python3
"""C16 translator: derive the shared-state footprint of rbql_engine.py from its source with `ast`
and write it as Lean data (lean/Rbql/Generated/SharedState.lean), regenerated on every check run.

 moduleLevelMutable  : module-level names bound to a mutable value (list/dict/set literal or constructor call)
 globalsDeclared     : names declared `global` in some function
 writtenOnQueryPath  : those names (of either kind) that a function reachable from query()/query_table()
                       stores to or mutates in place (name-based call graph; the code templates executed by
                       exec() are parsed too, after placeholder substitution)
 classLevelMutable   : class attributes bound to a mutable value in a class body
 mutableDefaults     : functions with a mutable default argument
 sharedInstancesUsed : module-level names bound to an INSTANCE of a class defined in the module (an object with attributes,
                       hence mutable state) that code reachable from query() refers to — e.g. a shared number handler
"""
import ast
import os
import re
import sys

MUTABLE_CALLS = {'list', 'dict', 'set', 'defaultdict', 'OrderedDict', 'bytearray', 'deque', 'Counter'}
MUTATORS = {'append', 'extend', 'insert', 'remove', 'pop', 'clear', 'update', 'add', 'discard', 'setdefault', 'popitem', 'sort', 'reverse', 'appendleft', '__setitem__', '__delitem__'}
ENTRY = ['query', 'query_table']


def is_mutable_value(node):
    if isinstance(node, (ast.List, ast.Dict, ast.Set, ast.ListComp, ast.DictComp, ast.SetComp)):
        return True
    if isinstance(node, ast.Call):
        f = node.func
        name = f.id if isinstance(f, ast.Name) else (f.attr if isinstance(f, ast.Attribute) else None)
        return name in MUTABLE_CALLS
    return False


def template_sources(tree):
    """module-level string constants that look like code templates"""
    out = []
    for node in tree.body:
        if isinstance(node, ast.Assign) and isinstance(node.value, ast.Constant) and isinstance(node.value.value, str):
            s = node.value.value
            if '\n' in s and ('__CODE__' in s or '__RBQLMP__' in s or 'query_context' in s):
                out.append((node.targets[0].id if isinstance(node.targets[0], ast.Name) else '?', s))
    return out


def parse_template(src):
    s = src
    s = re.sub(r'__RBQLMP__variables_init_code', 'pass', s)
    s = re.sub(r'__RBQLMP__update_expressions', 'pass', s)
    s = re.sub(r'__RBQLMP__\w+', 'None', s)
    s = s.replace('__USER_INIT_CODE__', 'pass').replace('__CODE__', 'pass')
    import textwrap
    try:
        return ast.parse(textwrap.dedent(s))
    except SyntaxError:
        return None


class FuncInfo(object):
    def __init__(self, name, node):
        self.name = name
        self.node = node
        self.calls = set()
        self.global_decls = set()
        self.stores = set()        # names assigned (Name ctx Store) / augmented
        self.mutations = set()     # names mutated in place


IMPORTED_MODULES = set()      # names bound by `import x` / `from . import x` in the module being scanned


def analyse_body(info):
    for n in ast.walk(info.node):
        if isinstance(n, ast.Name) and isinstance(n.ctx, ast.Load):
            info.calls.add(n.id)        # a function or class passed around by name (init_aggregator(AvgAggregator, …)) is reachable too
        if isinstance(n, ast.Global):
            info.global_decls.update(n.names)
        elif isinstance(n, ast.Call):
            f = n.func
            if isinstance(f, ast.Name):
                info.calls.add(f.id)
            elif isinstance(f, ast.Attribute):
                if not (isinstance(f.value, ast.Name) and f.value.id in IMPORTED_MODULES):      # `rbql_engine.query(..)` is not a call of a local `query`
                    info.calls.add(f.attr)
                if f.attr in MUTATORS and isinstance(f.value, ast.Name):
                    info.mutations.add(f.value.id)
        elif isinstance(n, (ast.Assign, ast.AugAssign, ast.AnnAssign, ast.Delete)):
            targets = n.targets if isinstance(n, (ast.Assign, ast.Delete)) else [n.target]
            for t in targets:
                for sub in ast.walk(t):
                    if isinstance(sub, ast.Name) and isinstance(sub.ctx, (ast.Store, ast.Del)):
                        info.stores.add(sub.id)
                    if isinstance(sub, (ast.Subscript, ast.Attribute)) and isinstance(sub.ctx, (ast.Store, ast.Del)):
                        base = sub.value
                        while isinstance(base, (ast.Subscript, ast.Attribute)):
                            base = base.value
                        if isinstance(base, ast.Name):
                            info.mutations.add(base.id)



SHALLOW_COPIERS = {'list', 'sorted', 'tuple', 'reversed', 'copy'}


class Taint(object):
    """Which local names may denote (part of) a module-level mutable value.  Two levels:
      'alias' : the very object, or an object nested inside it (an element of a shared list, a value of a shared dict);
      'elems' : a NEW container whose elements are the shared ones (`X[:]`, `list(X)`, `X.copy()`, `X + [..]`): changing its
                top level is harmless, reaching INTO it (`for g in copy`, `copy[i]`) gives an 'alias' again.
    Flow-insensitive inside a function, parameters receive the taint of the arguments (fixpoint over the call graph)."""

    def __init__(self, module_mutable, funcs):
        self.module_mutable = set(module_mutable)
        self.funcs = funcs
        self.param_taint = {}      # (function name, parameter name) -> (level, source)
        self.return_taint = {}     # function name -> (level, source)
        self.writes = set()        # (source, via-name, function)

    @staticmethod
    def join(a, b):
        if a is None: return b
        if b is None: return a
        return a if a[0] == 'alias' else b

    def expr(self, e, env, info):
        if isinstance(e, ast.Name):
            if e.id in env:
                return env[e.id]
            if e.id in self.module_mutable and e.id not in info.stores:
                return ('alias', e.id)
            return None
        if isinstance(e, ast.Subscript):
            t = self.expr(e.value, env, info)
            if t is None:
                return None
            return ('elems', t[1]) if isinstance(e.slice, ast.Slice) else ('alias', t[1])
        if isinstance(e, ast.Attribute):
            return None
        if isinstance(e, ast.BinOp) and isinstance(e.op, (ast.Add, ast.Mult)):
            t = self.join(self.expr(e.left, env, info), self.expr(e.right, env, info))
            return None if t is None else ('elems', t[1])
        if isinstance(e, ast.IfExp):
            return self.join(self.expr(e.body, env, info), self.expr(e.orelse, env, info))
        if isinstance(e, (ast.List, ast.Tuple, ast.Set)):
            t = None
            for x in e.elts:
                xt = self.expr(x.value if isinstance(x, ast.Starred) else x, env, info)
                if xt is not None:
                    t = self.join(t, ('elems', xt[1]))
            return t
        if isinstance(e, ast.Call):
            f = e.func
            name = f.id if isinstance(f, ast.Name) else (f.attr if isinstance(f, ast.Attribute) else None)
            if name == 'deepcopy':
                return None
            if name in SHALLOW_COPIERS or name in ('enumerate', 'zip', 'iter', 'filter', 'values', 'items'):
                args = list(e.args) + ([f.value] if isinstance(f, ast.Attribute) else [])
                t = None
                for a in args:
                    at = self.expr(a, env, info)
                    if at is not None:
                        t = self.join(t, ('elems', at[1]))
                return t
            if name in ('get', 'pop', 'setdefault', '__getitem__', 'next') and isinstance(f, ast.Attribute):
                t = self.expr(f.value, env, info)
                return None if t is None else ('alias', t[1])
            if isinstance(f, ast.Name) and name in self.return_taint:
                return self.return_taint[name]
            return None
        return None

    def bind_target(self, target, t, env):
        changed = False
        for sub in ast.walk(target):
            if isinstance(sub, ast.Name) and isinstance(sub.ctx, ast.Store):
                new = self.join(env.get(sub.id), t)
                if new != env.get(sub.id):
                    env[sub.id] = new
                    changed = True
        return changed

    def run_function(self, fname, info):
        """returns True when a parameter / return taint of some function changed"""
        node = info.node
        env = {}
        if isinstance(node, (ast.FunctionDef, ast.AsyncFunctionDef)):
            for a in node.args.args + node.args.kwonlyargs:
                t = self.param_taint.get((fname, a.arg))
                if t is not None:
                    env[a.arg] = t
        progress = True
        rounds = 0
        while progress and rounds < 20:
            progress = False
            rounds += 1
            for n in ast.walk(node):
                if isinstance(n, ast.Assign):
                    t = self.expr(n.value, env, info)
                    if t is not None:
                        for tg in n.targets:
                            if isinstance(tg, ast.Name):
                                progress |= self.bind_target(tg, t, env)
                            elif isinstance(tg, (ast.Tuple, ast.List)):
                                progress |= self.bind_target(tg, ('alias', t[1]), env)
                elif isinstance(n, (ast.For, ast.AsyncFor)):
                    t = self.expr(n.iter, env, info)
                    if t is not None:
                        progress |= self.bind_target(n.target, ('alias', t[1]), env)
                elif isinstance(n, ast.comprehension):
                    t = self.expr(n.iter, env, info)
                    if t is not None:
                        progress |= self.bind_target(n.target, ('alias', t[1]), env)
                elif isinstance(n, ast.withitem) and n.optional_vars is not None:
                    t = self.expr(n.context_expr, env, info)
                    if t is not None:
                        progress |= self.bind_target(n.optional_vars, t, env)
        changed = False
        for n in ast.walk(node):
            if isinstance(n, ast.Call):
                f = n.func
                # a mutating method called on a shared object
                if isinstance(f, ast.Attribute) and f.attr in MUTATORS:
                    t = self.expr(f.value, env, info)
                    if t is not None and t[0] == 'alias' and not (isinstance(f.value, ast.Name) and f.value.id in self.module_mutable):
                        self.writes.add((t[1], ast.unparse(f.value), fname))
                # arguments -> parameters of the callee
                callee = f.id if isinstance(f, ast.Name) else (f.attr if isinstance(f, ast.Attribute) else None)
                for ci in self.funcs.get(callee, []):
                    cn = ci.node
                    if isinstance(cn, ast.ClassDef):
                        inits = [m for m in cn.body if isinstance(m, ast.FunctionDef) and m.name == '__init__']
                        if not inits:
                            continue
                        cn, offset, key = inits[0], 1, '__init__'
                    elif isinstance(cn, (ast.FunctionDef, ast.AsyncFunctionDef)):
                        offset = 1 if (isinstance(f, ast.Attribute) and cn.args.args and cn.args.args[0].arg in ('self', 'cls')) else 0
                        key = callee
                    else:
                        continue
                    params = [a.arg for a in cn.args.args][offset:]
                    for i, a in enumerate(n.args):
                        t = self.expr(a, env, info)
                        if t is not None and i < len(params):
                            old = self.param_taint.get((key, params[i]))
                            new = self.join(old, t)
                            if new != old:
                                self.param_taint[(key, params[i])] = new
                                changed = True
                    for kw in n.keywords:
                        t = self.expr(kw.value, env, info) if kw.arg else None
                        if t is not None and kw.arg in params:
                            old = self.param_taint.get((key, kw.arg))
                            new = self.join(old, t)
                            if new != old:
                                self.param_taint[(key, kw.arg)] = new
                                changed = True
            elif isinstance(n, (ast.Assign, ast.AugAssign, ast.AnnAssign, ast.Delete)):
                targets = n.targets if isinstance(n, (ast.Assign, ast.Delete)) else [n.target]
                for tg in targets:
                    for sub in ast.walk(tg):
                        if isinstance(sub, (ast.Subscript, ast.Attribute)) and isinstance(sub.ctx, (ast.Store, ast.Del)):
                            t = self.expr(sub.value, env, info)
                            if t is not None and t[0] == 'alias' and not (isinstance(sub.value, ast.Name) and sub.value.id in self.module_mutable):
                                self.writes.add((t[1], ast.unparse(sub.value), fname))
                if isinstance(n, ast.AugAssign) and isinstance(n.target, ast.Name):
                    t = env.get(n.target.id)
                    if t is not None and t[0] == 'alias':
                        self.writes.add((t[1], n.target.id, fname))          # `x += [..]` extends a list in place
            elif isinstance(n, ast.Return) and n.value is not None and isinstance(node, (ast.FunctionDef, ast.AsyncFunctionDef)):
                t = self.expr(n.value, env, info)
                if t is not None:
                    old = self.return_taint.get(fname)
                    new = self.join(old, t)
                    if new != old:
                        self.return_taint[fname] = new
                        changed = True
        return changed

    def run(self, reach):
        for _ in range(30):
            self.writes = set()
            changed = False
            for f in sorted(reach):
                for info in self.funcs.get(f, []):
                    changed |= self.run_function(f, info)
            if not changed:
                break
        return self.writes


MEMOISERS = {'lru_cache', 'cache', 'memoize', 'memoized', 'cached', 'cached_property'}


def scan(path, entry=None):
    src = open(path).read()
    tree = ast.parse(src)
    entry = ENTRY if entry is None else entry
    IMPORTED_MODULES.clear()
    if entry is not ENTRY:
        for node in ast.walk(tree):
            if isinstance(node, ast.Import):
                IMPORTED_MODULES.update((a.asname or a.name).split('.')[0] for a in node.names)
            elif isinstance(node, ast.ImportFrom) and node.module is None:
                IMPORTED_MODULES.update(a.asname or a.name for a in node.names)
    module_mutable = []
    class_mutable = []
    mutable_defaults = []
    funcs = {}

    def add_func(name, node):
        info = FuncInfo(name, node)
        analyse_body(info)
        funcs.setdefault(name, []).append(info)

    class_names = set(n.name for n in tree.body if isinstance(n, ast.ClassDef))
    module_instances = []
    for node in tree.body:
        if isinstance(node, ast.Assign) and is_mutable_value(node.value):
            for t in node.targets:
                if isinstance(t, ast.Name):
                    module_mutable.append(t.id)
        if isinstance(node, ast.Assign) and isinstance(node.value, ast.Call) and isinstance(node.value.func, ast.Name) and node.value.func.id in class_names:
            for t in node.targets:
                if isinstance(t, ast.Name):
                    module_instances.append(t.id)
    for node in ast.walk(tree):
        if isinstance(node, (ast.FunctionDef, ast.AsyncFunctionDef)):
            add_func(node.name, node)
            for d in list(node.args.defaults) + [d for d in node.args.kw_defaults if d is not None]:
                if is_mutable_value(d):
                    mutable_defaults.append(node.name)
        elif isinstance(node, ast.ClassDef):
            add_func(node.name, node)   # constructing the class = calling __init__: keep the class name callable
            for st in node.body:
                if isinstance(st, ast.Assign) and is_mutable_value(st.value):
                    for t in st.targets:
                        if isinstance(t, ast.Name):
                            class_mutable.append('%s.%s' % (node.name, t.id))
    for tname, tsrc in template_sources(tree):
        t = parse_template(tsrc)
        if t is not None:
            add_func('<template %s>' % tname, t)
    global_names = set()
    for infos in funcs.values():
        for i in infos:
            global_names |= i.global_decls
    # reachability (name based; templates are reachable from compile_and_run)
    reach = set()
    work = [e for e in entry if e in funcs]
    while work:
        f = work.pop()
        if f in reach:
            continue
        reach.add(f)
        callees = set()
        for i in funcs.get(f, []):
            callees |= i.calls
            for sub in ast.walk(i.node):
                if isinstance(sub, ast.ClassDef) and sub is not i.node:
                    pass
        if f in ('compile_and_run', 'generate_main_loop_code'):
            callees |= set(n for n in funcs if n.startswith('<template'))
        # methods of classes constructed on the path: every method name called anywhere on the path is followed (conservative)
        for c in callees:
            if c in funcs and c not in reach:
                work.append(c)
    written = set()
    shared = set(module_mutable) | global_names
    for f in reach:
        for i in funcs.get(f, []):
            for nm in i.stores:
                if nm in global_names and (nm in i.global_decls or f.startswith('<template')):
                    written.add(nm)
            for nm in i.mutations:
                if nm in module_mutable and nm not in i.stores:      # a local of the same name shadows the module-level one
                    written.add(nm)
    # a memoising decorator on a reachable function is a module-level cache
    for f in reach:
        for i in funcs.get(f, []):
            for d in getattr(i.node, 'decorator_list', []):
                dn = d.func if isinstance(d, ast.Call) else d
                name = dn.id if isinstance(dn, ast.Name) else (dn.attr if isinstance(dn, ast.Attribute) else None)
                if name in MEMOISERS:
                    written.add('%s (memoised by @%s)' % (f, name))
            for sub in ast.walk(i.node):
                # function attributes used as storage: `f.cache = ..` / `f.cache[k] = ..` where f is a function of the module
                if isinstance(sub, ast.Attribute) and isinstance(sub.ctx, ast.Store) and isinstance(sub.value, ast.Name) and sub.value.id in funcs and sub.value.id not in i.stores \
                        and isinstance(funcs[sub.value.id][0].node, (ast.FunctionDef, ast.AsyncFunctionDef)):
                    written.add('%s.%s (function attribute set in %s)' % (sub.value.id, sub.attr, f))
    # writes that reach a shared value through local names (aliases, elements of shallow copies, parameters)
    for srcname, via, fn in Taint(module_mutable, funcs).run(reach):
        written.add('%s (through `%s` in %s)' % (srcname, via, fn))
    # module-level instances referred to (loaded) by reachable code: every method call on them may change shared state
    used_instances = set()
    for f in reach:
        for i in funcs.get(f, []):
            for sub in ast.walk(i.node):
                if isinstance(sub, ast.Name) and isinstance(sub.ctx, ast.Load) and sub.id in module_instances and sub.id not in i.stores:
                    used_instances.add(sub.id)
    return {'sharedInstancesUsed': sorted(used_instances), 'moduleLevelMutable': sorted(set(module_mutable)), 'globalsDeclared': sorted(global_names), 'writtenOnQueryPath': sorted(written),
            'classLevelMutable': sorted(set(class_mutable)), 'mutableDefaults': sorted(set(mutable_defaults)), 'reachable': sorted(reach)}


FRONTENDS = [('rbql_csv', ['query_csv']), ('rbql_pandas', ['query_dataframe', 'query_pandas_dataframe']), ('rbql_sqlite', ['query_sqlite_to_csv']),
             ('rbql_main', ['run_with_python_csv', 'run_with_python_sqlite', 'run_interactive_loop'])]


def caller_object_stores(path):
    """attribute stores on objects the caller handed over: `param.attr = …` for a parameter other than self / cls, and `self.F.attr = …` where the field F
    was assigned from a parameter (the sqlite connection, the dataframe, the stream): the adapter modules configure their own objects only"""
    tree = ast.parse(open(path).read())
    fields = set()
    for fn in ast.walk(tree):
        if isinstance(fn, (ast.FunctionDef, ast.AsyncFunctionDef)):
            params = {a.arg for a in fn.args.args + fn.args.kwonlyargs if a.arg not in ('self', 'cls')}
            for n in ast.walk(fn):
                if isinstance(n, ast.Assign) and isinstance(n.value, ast.Name) and n.value.id in params:
                    for t in n.targets:
                        if isinstance(t, ast.Attribute) and isinstance(t.value, ast.Name) and t.value.id == 'self':
                            fields.add(t.attr)
    hits = []
    for fn in ast.walk(tree):
        if isinstance(fn, (ast.FunctionDef, ast.AsyncFunctionDef)):
            params = {a.arg for a in fn.args.args + fn.args.kwonlyargs if a.arg not in ('self', 'cls')}
            for n in ast.walk(fn):
                tg = n.targets if isinstance(n, (ast.Assign, ast.Delete)) else [n.target] if isinstance(n, (ast.AugAssign, ast.AnnAssign)) else []
                for t in tg:
                    for sub in ast.walk(t):
                        if isinstance(sub, ast.Attribute) and isinstance(sub.ctx, (ast.Store, ast.Del)):
                            b = sub.value
                            if isinstance(b, ast.Name) and b.id in params:
                                hits.append('%s (in %s)' % (ast.unparse(sub), fn.name))
                            elif isinstance(b, ast.Attribute) and isinstance(b.value, ast.Name) and b.value.id == 'self' and b.attr in fields:
                                hits.append('%s (in %s)' % (ast.unparse(sub), fn.name))
                if isinstance(n, ast.Call) and isinstance(n.func, ast.Name) and n.func.id == 'setattr' and n.args:
                    b = n.args[0]
                    if (isinstance(b, ast.Name) and b.id in params) or (isinstance(b, ast.Attribute) and isinstance(b.value, ast.Name) and b.value.id == 'self' and b.attr in fields):
                        hits.append('%s (in %s)' % (ast.unparse(n), fn.name))
    return sorted(set(hits))


def scan_frontends(pkg_dir):
    """the same footprint for the front-end modules (entry points: the library calls and the interactive loop of the command line)"""
    out = {'writtenOnQueryPath': [], 'classLevelMutable': [], 'mutableDefaults': [], 'sharedInstancesUsed': [], 'moduleLevelMutable': [], 'globalsDeclared': [], 'callerObjectsWritten': []}
    for mod in ('rbql_csv', 'rbql_pandas', 'rbql_sqlite'):
        try:
            out['callerObjectsWritten'] += ['%s: %s' % (mod, h) for h in caller_object_stores(os.path.join(pkg_dir, mod + '.py'))]
        except Exception as e:
            out['callerObjectsWritten'].append('%s: <scan failed: %s>' % (mod, type(e).__name__))
    for mod, entry in FRONTENDS:
        path = os.path.join(pkg_dir, mod + '.py')
        try:
            r = scan(path, entry)
        except Exception as e:
            out['writtenOnQueryPath'].append('%s: <scan failed: %s>' % (mod, type(e).__name__))
            continue
        for k in out:
            if k in r:
                out[k] += ['%s: %s' % (mod, x) for x in r[k]]
    IMPORTED_MODULES.clear()
    return out


def lean_list(xs):
    return '[' + ', '.join('"%s"' % x.replace('\\', '\\\\').replace('"', '\\"') for x in xs) + ']'


def to_lean(r, src_path, fe=None):
    fe = fe or {'writtenOnQueryPath': ['<front-ends not scanned>'], 'classLevelMutable': [], 'mutableDefaults': [], 'sharedInstancesUsed': [], 'callerObjectsWritten': []}
    return '''-- GENERATED on every check run by tools/shared_state_scan.py from %s; do not edit.
namespace Rbql.Generated

/-- module-level names of rbql_engine.py bound to a mutable value -/
def moduleLevelMutable : List String := %s
/-- names declared `global` in some function -/
def globalsDeclared : List String := %s
/-- shared names stored to or mutated in place by code reachable from query() / query_table() -/
def writtenOnQueryPath : List String := %s
/-- class attributes bound to a mutable value in a class body -/
def classLevelMutable : List String := %s
/-- functions with a mutable default argument -/
def mutableDefaults : List String := %s
/-- module-level instances of module-defined classes referred to by code reachable from query() -/
def sharedInstancesUsed : List String := %s

/-- the same for the front-end modules rbql_csv / rbql_pandas / rbql_sqlite / rbql_main (entry points: query_csv, query_dataframe,
query_sqlite_to_csv, the command line's run_with_* and interactive loop) -/
def frontendWrittenOnQueryPath : List String := %s
def frontendClassLevelMutable : List String := %s
def frontendMutableDefaults : List String := %s
def frontendSharedInstancesUsed : List String := %s
/-- attribute stores of the adapter modules (rbql_csv / rbql_pandas / rbql_sqlite) on objects the caller handed over (a parameter, or a field assigned from one) -/
def frontendCallerObjectsWritten : List String := %s

end Rbql.Generated
''' % (src_path, lean_list(r['moduleLevelMutable']), lean_list(r['globalsDeclared']), lean_list(r['writtenOnQueryPath']),
       lean_list(r['classLevelMutable']), lean_list(r['mutableDefaults']), lean_list(r['sharedInstancesUsed']),
       lean_list(fe['writtenOnQueryPath']), lean_list(fe['classLevelMutable']), lean_list(fe['mutableDefaults']), lean_list(fe['sharedInstancesUsed']), lean_list(fe.get('callerObjectsWritten', [])))


if __name__ == '__main__':
    p = sys.argv[1] if len(sys.argv) > 1 else '/repo/rbql-py/rbql/rbql_engine.py'
    import json
    r = scan(p)
    r.pop('reachable')
    print(json.dumps(r, indent=1))
    print(json.dumps(scan_frontends(os.path.dirname(p)), indent=1))
