#!/usr/bin/env python3
"""C16 translator: derive the shared-state footprint of rbql_engine.py from its source with `ast`
and write it as Lean data (lean/Rbql/Generated/SharedState.lean), regenerated on every check run.

 moduleLevelMutable  : module-level names bound to a mutable value (list/dict/set literal or constructor call)
 globalsDeclared     : names declared `global` in some function
 writtenOnQueryPath  : those names (of either kind) that a function reachable from query()/query_table()
                       stores to or mutates in place (name-based call graph; the code templates executed by
                       exec() are parsed too, after placeholder substitution)
 classLevelMutable   : class attributes bound to a mutable value in a class body
 mutableDefaults     : functions with a mutable default argument
 sharedInstancesUsed : module-level names bound to an INSTANCE of a class defined in the module (an object with attributes,
                       hence mutable state) that code reachable from query() refers to — e.g. a shared number handler
"""
import ast
import os
import re
import sys

MUTABLE_CALLS = {'list', 'dict', 'set', 'defaultdict', 'OrderedDict', 'bytearray', 'deque', 'Counter'}
MUTATORS = {'append', 'extend', 'insert', 'remove', 'pop', 'clear', 'update', 'add', 'discard', 'setdefault', 'popitem', 'sort', 'reverse', 'appendleft', '__setitem__', '__delitem__'}
ENTRY = ['query', 'query_table']


def is_mutable_value(node):
    if isinstance(node, (ast.List, ast.Dict, ast.Set, ast.ListComp, ast.DictComp, ast.SetComp)):
        return True
    if isinstance(node, ast.Call):
        f = node.func
        name = f.id if isinstance(f, ast.Name) else (f.attr if isinstance(f, ast.Attribute) else None)
        return name in MUTABLE_CALLS
    return False


def template_sources(tree):
    """module-level string constants that look like code templates"""
    out = []
    for node in tree.body:
        if isinstance(node, ast.Assign) and isinstance(node.value, ast.Constant) and isinstance(node.value.value, str):
            s = node.value.value
            if '\n' in s and ('__CODE__' in s or '__RBQLMP__' in s or 'query_context' in s):
                out.append((node.targets[0].id if isinstance(node.targets[0], ast.Name) else '?', s))
    return out


def parse_template(src):
    s = src
    s = re.sub(r'__RBQLMP__variables_init_code', 'pass', s)
    s = re.sub(r'__RBQLMP__update_expressions', 'pass', s)
    s = re.sub(r'__RBQLMP__\w+', 'None', s)
    s = s.replace('__USER_INIT_CODE__', 'pass').replace('__CODE__', 'pass')
    import textwrap
    try:
        return ast.parse(textwrap.dedent(s))
    except SyntaxError:
        return None


class FuncInfo(object):
    def __init__(self, name, node):
        self.name = name
        self.node = node
        self.calls = set()
        self.global_decls = set()
        self.stores = set()        # names assigned (Name ctx Store) / augmented
        self.mutations = set()     # names mutated in place


def analyse_body(info):
    for n in ast.walk(info.node):
        if isinstance(n, ast.Name) and isinstance(n.ctx, ast.Load):
            info.calls.add(n.id)        # a function or class passed around by name (init_aggregator(AvgAggregator, …)) is reachable too
        if isinstance(n, ast.Global):
            info.global_decls.update(n.names)
        elif isinstance(n, ast.Call):
            f = n.func
            if isinstance(f, ast.Name):
                info.calls.add(f.id)
            elif isinstance(f, ast.Attribute):
                info.calls.add(f.attr)
                if f.attr in MUTATORS and isinstance(f.value, ast.Name):
                    info.mutations.add(f.value.id)
        elif isinstance(n, (ast.Assign, ast.AugAssign, ast.AnnAssign, ast.Delete)):
            targets = n.targets if isinstance(n, (ast.Assign, ast.Delete)) else [n.target]
            for t in targets:
                for sub in ast.walk(t):
                    if isinstance(sub, ast.Name) and isinstance(sub.ctx, (ast.Store, ast.Del)):
                        info.stores.add(sub.id)
                    if isinstance(sub, (ast.Subscript, ast.Attribute)) and isinstance(sub.ctx, (ast.Store, ast.Del)):
                        base = sub.value
                        while isinstance(base, (ast.Subscript, ast.Attribute)):
                            base = base.value
                        if isinstance(base, ast.Name):
                            info.mutations.add(base.id)


def scan(path):
    src = open(path).read()
    tree = ast.parse(src)
    module_mutable = []
    class_mutable = []
    mutable_defaults = []
    funcs = {}

    def add_func(name, node):
        info = FuncInfo(name, node)
        analyse_body(info)
        funcs.setdefault(name, []).append(info)

    class_names = set(n.name for n in tree.body if isinstance(n, ast.ClassDef))
    module_instances = []
    for node in tree.body:
        if isinstance(node, ast.Assign) and is_mutable_value(node.value):
            for t in node.targets:
                if isinstance(t, ast.Name):
                    module_mutable.append(t.id)
        if isinstance(node, ast.Assign) and isinstance(node.value, ast.Call) and isinstance(node.value.func, ast.Name) and node.value.func.id in class_names:
            for t in node.targets:
                if isinstance(t, ast.Name):
                    module_instances.append(t.id)
    for node in ast.walk(tree):
        if isinstance(node, (ast.FunctionDef, ast.AsyncFunctionDef)):
            add_func(node.name, node)
            for d in list(node.args.defaults) + [d for d in node.args.kw_defaults if d is not None]:
                if is_mutable_value(d):
                    mutable_defaults.append(node.name)
        elif isinstance(node, ast.ClassDef):
            add_func(node.name, node)   # constructing the class = calling __init__: keep the class name callable
            for st in node.body:
                if isinstance(st, ast.Assign) and is_mutable_value(st.value):
                    for t in st.targets:
                        if isinstance(t, ast.Name):
                            class_mutable.append('%s.%s' % (node.name, t.id))
    for tname, tsrc in template_sources(tree):
        t = parse_template(tsrc)
        if t is not None:
            add_func('<template %s>' % tname, t)
    global_names = set()
    for infos in funcs.values():
        for i in infos:
            global_names |= i.global_decls
    # reachability (name based; templates are reachable from compile_and_run)
    reach = set()
    work = [e for e in ENTRY if e in funcs]
    while work:
        f = work.pop()
        if f in reach:
            continue
        reach.add(f)
        callees = set()
        for i in funcs.get(f, []):
            callees |= i.calls
            for sub in ast.walk(i.node):
                if isinstance(sub, ast.ClassDef) and sub is not i.node:
                    pass
        if f in ('compile_and_run', 'generate_main_loop_code'):
            callees |= set(n for n in funcs if n.startswith('<template'))
        # methods of classes constructed on the path: every method name called anywhere on the path is followed (conservative)
        for c in callees:
            if c in funcs and c not in reach:
                work.append(c)
    written = set()
    shared = set(module_mutable) | global_names
    for f in reach:
        for i in funcs.get(f, []):
            for nm in i.stores:
                if nm in global_names and (nm in i.global_decls or f.startswith('<template')):
                    written.add(nm)
            for nm in i.mutations:
                if nm in module_mutable and nm not in i.stores:      # a local of the same name shadows the module-level one
                    written.add(nm)
    # module-level instances referred to (loaded) by reachable code: every method call on them may change shared state
    used_instances = set()
    for f in reach:
        for i in funcs.get(f, []):
            for sub in ast.walk(i.node):
                if isinstance(sub, ast.Name) and isinstance(sub.ctx, ast.Load) and sub.id in module_instances and sub.id not in i.stores:
                    used_instances.add(sub.id)
    return {'sharedInstancesUsed': sorted(used_instances), 'moduleLevelMutable': sorted(set(module_mutable)), 'globalsDeclared': sorted(global_names), 'writtenOnQueryPath': sorted(written),
            'classLevelMutable': sorted(set(class_mutable)), 'mutableDefaults': sorted(set(mutable_defaults)), 'reachable': sorted(reach)}


def lean_list(xs):
    return '[' + ', '.join('"%s"' % x.replace('\\', '\\\\').replace('"', '\\"') for x in xs) + ']'


def to_lean(r, src_path):
    return '''-- GENERATED on every check run by tools/shared_state_scan.py from %s; do not edit.
namespace Rbql.Generated

/-- module-level names of rbql_engine.py bound to a mutable value -/
def moduleLevelMutable : List String := %s
/-- names declared `global` in some function -/
def globalsDeclared : List String := %s
/-- shared names stored to or mutated in place by code reachable from query() / query_table() -/
def writtenOnQueryPath : List String := %s
/-- class attributes bound to a mutable value in a class body -/
def classLevelMutable : List String := %s
/-- functions with a mutable default argument -/
def mutableDefaults : List String := %s
/-- module-level instances of module-defined classes referred to by code reachable from query() -/
def sharedInstancesUsed : List String := %s

end Rbql.Generated
''' % (src_path, lean_list(r['moduleLevelMutable']), lean_list(r['globalsDeclared']), lean_list(r['writtenOnQueryPath']),
       lean_list(r['classLevelMutable']), lean_list(r['mutableDefaults']), lean_list(r['sharedInstancesUsed']))


if __name__ == '__main__':
    p = sys.argv[1] if len(sys.argv) > 1 else '/repo/rbql-py/rbql/rbql_engine.py'
    import json
    print(json.dumps(scan(p), indent=1))
